"""Harness-side enrichment of liesel.goose.mh.mh_step (only under LIESEL_VERIF=1).

The wrapper is installed over the *name* `mh_step` in liesel.goose.rw / .iwls / .mh_kernel.  It calls
the real mh_step and returns an info object that additionally carries what the function was given
(proposal, log-correction) and the two log-densities, so that the information survives jit/vmap/scan
and arrives in stored transition infos.  Kernels pass the info object through untouched.
"""

from __future__ import annotations

import os
from dataclasses import dataclass
from typing import Any

_installed = False


def install():
    global _installed
    if _installed or os.environ.get("LIESEL_VERIF") != "1":
        return _installed
    import jax.numpy as jnp
    import liesel.goose.iwls as iwls
    import liesel.goose.mh as mh
    import liesel.goose.mh_kernel as mhk
    import liesel.goose.rw as rw
    from liesel.goose.kernel import DefaultTransitionInfo
    from liesel.goose.pytree import register_dataclass_as_pytree

    real = mh.mh_step

    @register_dataclass_as_pytree
    @dataclass
    class RichInfo:
        error_code: Any
        acceptance_prob: Any
        position_moved: Any
        proposal: Any
        log_correction: Any
        lp_current: Any
        lp_proposed: Any

        def minimize(self):
            return DefaultTransitionInfo(self.error_code, self.acceptance_prob, self.position_moved)

    def enriched_mh_step(prng_key, model, proposal, model_state, log_correction=0.0):
        info, new_state = real(prng_key, model, proposal, model_state, log_correction)
        lp_cur = model.log_prob(model_state)
        lp_prop = model.log_prob(model.update_state(proposal, model_state))
        rich = RichInfo(info.error_code, info.acceptance_prob, info.position_moved, proposal,
                        jnp.asarray(log_correction, jnp.float32), lp_cur, lp_prop)
        return rich, new_state

    for mod in (rw, iwls, mhk):
        if getattr(mod, "mh_step", None) is real:
            mod.mh_step = enriched_mh_step
    _installed = True
    return True
