"""Shared helpers: seeds, hashing, JSON conversion, violation records."""

from __future__ import annotations

import hashlib
import json
import os
import traceback
import zlib
from contextlib import contextmanager

import numpy as np

VERIF_ROOT = os.environ.get(
    "VERIF_ROOT", os.path.dirname(os.path.dirname(os.path.abspath(__file__)))
)
LIESEL_REPO = os.path.realpath(os.environ.get("LIESEL_REPO", "/repo"))


def subseed(seed: int, *keys) -> np.random.SeedSequence:
    """Deterministic seed sequence from VERIF_SEED and any hashable keys."""
    ints = [int(seed) & 0xFFFFFFFF]
    for k in keys:
        if isinstance(k, (int, np.integer)):
            ints.append(int(k) & 0xFFFFFFFF)
        else:
            ints.append(zlib.crc32(str(k).encode()))
    return np.random.SeedSequence(ints)


def rng_for(seed: int, *keys) -> np.random.Generator:
    return np.random.default_rng(subseed(seed, *keys))


def off(got, exp, tol):
    """True where `got` differs from `exp` by more than `tol` - NaN-aware: a NaN or an infinity on one side only is a
    difference (a plain `abs(got - exp) > tol` is False for NaN and would let it pass); equal infinities and NaN on both
    sides are not.  Works elementwise on arrays and on scalars."""
    g, e = np.asarray(got, np.float64), np.asarray(exp, np.float64)
    with np.errstate(invalid="ignore"):
        return ~((g == e) | (np.isnan(g) & np.isnan(e)) | (np.abs(g - e) <= tol))


def to_jsonable(x):
    """Best-effort conversion of arrays / pytrees to plain JSON types."""
    if x is None or isinstance(x, (bool, int, str)):
        return x
    if isinstance(x, float):
        if x != x:
            return "nan"
        if x in (float("inf"), float("-inf")):
            return "inf" if x > 0 else "-inf"
        return x
    if isinstance(x, (np.integer,)):
        return int(x)
    if isinstance(x, (np.floating,)):
        return to_jsonable(float(x))
    if isinstance(x, np.bool_):
        return bool(x)
    if isinstance(x, dict):
        return {str(k): to_jsonable(v) for k, v in x.items()}
    if isinstance(x, (list, tuple, set, frozenset)):
        return [to_jsonable(v) for v in x]
    if hasattr(x, "shape") and hasattr(x, "dtype"):
        a = np.asarray(x)
        if a.size <= 64:
            return to_jsonable(a.tolist())
        return {
            "shape": list(a.shape),
            "dtype": str(a.dtype),
            "head": to_jsonable(a.ravel()[:16].tolist()),
        }
    return repr(x)[:300]


def struct_hash(obj) -> str:
    s = json.dumps(to_jsonable(obj), sort_keys=True, default=str)
    return hashlib.sha1(s.encode()).hexdigest()[:16]


class CaseResult:
    """Accumulates what one case observed.  Converted to a dict for transport."""

    def __init__(self, case=None):
        self.case = case
        self.evals = 0
        self.monitors: dict[str, int] = {}
        self.events: dict[str, int] = {}
        self.violations: list[dict] = []
        self.nontrivial: list[str] = []  # hashes of distinct non-trivial sub-cases
        self.sample = None
        self.extra = None
        self.skipped: dict[str, int] = {}

    # -- recording -----------------------------------------------------
    def mon(self, name: str, n: int = 1):
        """One evaluation of monitor `name` (the oracle actually compared something)."""
        self.monitors[name] = self.monitors.get(name, 0) + int(n)

    def ev(self, kind: str, n: int = 1):
        self.events[kind] = self.events.get(kind, 0) + int(n)

    def skip(self, why: str, n: int = 1):
        self.skipped[why] = self.skipped.get(why, 0) + int(n)

    def violation(self, mech: str, msg: str, witness=None):
        """Record a violation.  `mech` is the mechanism key used for known findings."""
        if len(self.violations) < 50:
            self.violations.append(
                {"mech": mech, "msg": str(msg)[:2000], "witness": to_jsonable(witness)}
            )
        else:
            self.ev("violations_dropped")

    def check(self, cond, monitor: str, mech: str, msg: str, witness=None) -> bool:
        self.mon(monitor)
        ok = bool(cond)
        if not ok:
            self.violation(mech, msg, witness)
        return ok

    def nontriv(self, obj):
        self.nontrivial.append(obj if isinstance(obj, str) else struct_hash(obj))

    def as_dict(self):
        return {
            "case": self.case,
            "evals": self.evals,
            "monitors": self.monitors,
            "events": self.events,
            "violations": self.violations,
            "nontrivial": self.nontrivial,
            "sample": to_jsonable(self.sample),
            "extra": self.extra,
            "skipped": self.skipped,
        }


def liesel_frames(tb) -> list[str]:
    """Frames of a traceback that lie inside the liesel package under test."""
    out = []
    root = os.path.join(LIESEL_REPO, "liesel") + os.sep
    for fs in traceback.extract_tb(tb):
        fn = os.path.realpath(fs.filename)
        if fn.startswith(root):
            out.append(f"{os.path.relpath(fn, LIESEL_REPO)}:{fs.name}")
    return out


def exc_mech(exc: BaseException) -> tuple[str | None, str]:
    """Mechanism key for an exception that passed through liesel frames, else None."""
    frames = liesel_frames(exc.__traceback__)
    text = "".join(traceback.format_exception(type(exc), exc, exc.__traceback__))[-3000:]
    if not frames:
        return None, text
    return f"exception:{type(exc).__name__}@{frames[-1]}", text


@contextmanager
def liesel_call(res: CaseResult, what: str, witness=None, mech_prefix: str = ""):
    """Run a block of real-code calls that must not raise on in-domain input.

    An exception that passed through liesel frames is recorded as a violation
    (the API failed to deliver), and swallowed; harness-only exceptions propagate.
    """
    try:
        yield
    except Exception as exc:  # noqa: BLE001
        mech, text = exc_mech(exc)
        if mech is None:
            raise
        res.violation(mech_prefix + mech, f"{what}: liesel raised\n{text}", witness)


class Raised(Exception):
    pass
