"""Distributional monitors: z-tests, KS against a numeric CDF, and the two-stage rule.

Two-stage rule (DESIGN.md section 3): a statistic is *flagged* when |z| > Z_FLAG (per-statistic
alpha ~ 6.8e-6; p-values enter through z = isf(p)).  A flagged case is re-run with an independent
sub-seed and 4x the sample size; it is a violation only if the *same* statistic is flagged again
with the same sign.  Unconfirmed flags are logged, never reported as violations.
"""

from __future__ import annotations

import numpy as np
from scipy import stats as sst

Z_FLAG = 4.5


def z_from_p(p: float) -> float:
    p = max(float(p), 1e-300)
    return float(sst.norm.isf(p))


def z_mean(x, mu, sd=None):
    x = np.asarray(x, np.float64)
    n = x.size
    s = np.std(x, ddof=1) if sd is None else sd
    if s == 0:
        return 0.0 if np.allclose(x.mean(), mu) else np.inf * np.sign(x.mean() - mu)
    return float((x.mean() - mu) / (s / np.sqrt(n)))


def z_paired(a, b):
    d = np.asarray(a, np.float64) - np.asarray(b, np.float64)
    s = d.std(ddof=1)
    if s == 0:
        return 0.0 if np.all(d == 0) else float(np.inf * np.sign(d.mean()))
    return float(d.mean() / (s / np.sqrt(d.size)))


def ks_numeric(x, grid, cdf):
    """One-sample KS of draws x against a CDF tabulated on an increasing grid."""
    x = np.sort(np.asarray(x, np.float64))
    F = np.interp(x, grid, cdf, left=0.0, right=1.0)
    n = x.size
    dplus = np.max(np.arange(1, n + 1) / n - F)
    dminus = np.max(F - np.arange(0, n) / n)
    d = max(dplus, dminus)
    p = float(sst.kstwo.sf(d, n))
    return d, p


def flags(stats_: dict) -> dict:
    return {k: v for k, v in stats_.items() if not np.isfinite(v) or abs(v) > Z_FLAG}


def two_stage_finalize(ctx, make_stage2, what="statistic"):
    """ctx.results carry extra={'stats': {...}, 'flags': {...}}.  Re-run flagged cases."""
    flagged = [r for r in ctx.results if isinstance(r.get("extra"), dict) and r["extra"].get("flags")]
    n_stats = sum(len(r["extra"].get("stats", {})) for r in ctx.results if isinstance(r.get("extra"), dict))
    ctx.notes["statistics_evaluated"] = n_stats
    ctx.notes["flag_threshold_z"] = Z_FLAG
    if n_stats:
        ctx.mon("two_stage_statistics", n_stats)
    if not flagged:
        ctx.notes["unconfirmed_flags"] = []
        return
    cases2 = [make_stage2(r["case"]) for r in flagged]
    res2 = ctx.run(cases2)
    by_key = {}
    for r2 in res2:
        by_key[r2["case"].get("stage2_of")] = r2
    unconfirmed = []
    for r in flagged:
        key = r["case"].get("idx")
        r2 = by_key.get(key)
        if r2 is None or not isinstance(r2.get("extra"), dict):
            ctx.inconclusive.append(f"stage-2 run of flagged case {key} produced no statistics")
            continue
        for name, z1 in r["extra"]["flags"].items():
            z2 = r2["extra"]["stats"].get(name)
            confirmed = z2 is not None and (not np.isfinite(z2) or abs(z2) > Z_FLAG) and ((np.isnan(z1) and np.isnan(z2)) or np.sign(z2) == np.sign(z1))
            if confirmed:
                ctx.violation(r["extra"].get("mech", "distribution") + ":" + name.split("|")[0],
                              f"{what} '{name}' flagged at stage 1 (z={z1:.2f}) and confirmed at stage 2 with 4x the sample "
                              f"size and an independent seed (z={z2:.2f}); case {r['extra'].get('desc')}",
                              {"case": r["case"], "z1": z1, "z2": z2}, case=r["case"])
            else:
                unconfirmed.append({"case": key, "stat": name, "z1": z1, "z2": z2})
    ctx.notes["unconfirmed_flags"] = unconfirmed[:20]
