"""Runs the real Goose engine with probe kernels from a JSON case description and
provides the pure-Python twin (expected trajectory / expected trace) used by C07/C08/C10/C19."""

from __future__ import annotations

import numpy as np

from .probes import (
    ProbeKernel,
    ProbeKernelB,
    det_next,
    divisors,
    gen_schedule,
    mk_epochs,
    total_time,
)

KEY_POOL = ["a", "b", "c", "d", "e"]
SHAPE_POOL = [[], [3], [2, 2], [1], [2]]


def gen_probe_case(rng, seed, idx, *, max_epochs=6, max_dur=12, allow_thin=True, max_chains=3,
                   max_kernels=3, modes=("all", "append", "mixed"), via=("direct", "builder"),
                   err=False):
    spec = gen_schedule(rng, max_epochs=max_epochs, max_dur=max_dur, allow_thin=allow_thin)
    durs = [d for _, d, _ in spec]
    g = int(np.gcd.reduce(durs))
    nk = int(rng.integers(1, max_kernels + 1))
    nkeys = int(rng.integers(nk, min(len(KEY_POOL), nk + 2) + 1))
    keys = KEY_POOL[:nkeys]
    order = list(rng.permutation(nkeys))
    cuts = sorted(rng.choice(np.arange(1, nkeys), size=nk - 1, replace=False).tolist()) if nk > 1 else []
    blocks = []
    prev = 0
    for c in cuts + [nkeys]:
        blocks.append([keys[int(i)] for i in order[prev:c]])
        prev = c
    shapes = {k: SHAPE_POOL[int(rng.integers(len(SHAPE_POOL)))] for k in keys}
    dtypes = {k: ("int32" if rng.random() < 0.2 else "float32") for k in keys}
    v = str(rng.choice(list(via)))
    chunk = g if v == "builder" else int(rng.choice(divisors(g)))
    case = {
        "idx": int(idx), "seed": int(seed),
        "spec": spec, "chains": int(rng.integers(1, max_chains + 1)),
        # (some kernels report a non-zero error code from end_warmup: a warning for the user, nothing else)
        "kernels": [{"keys": b, "needs_history": bool(rng.random() < 0.5), "warmup_error": int(rng.choice([0, 0, 2]))} for b in blocks],
        "shapes": shapes, "dtypes": dtypes, "chunk": chunk,
        "mode": str(rng.choice(list(modes))), "via": v,
        "engine_seed": int(rng.integers(0, 2 ** 31 - 1)),
        "split": int(rng.integers(0, len(spec) + 1)),
        # repeated epochs of the schedule are one and the same EpochConfig object
        "share_configs": bool(rng.random() < 0.5),
    }
    if err:
        case["err"] = gen_err(rng, case)
    return case


def gen_err(rng, case):
    """Error-code table spec per kernel: list of [chain, time, code] cells (+ style)."""
    T = total_time(case["spec"])
    C = case["chains"]
    first_post = first_posterior_time(case["spec"])
    out = []
    for ki in range(len(case["kernels"])):
        style = str(rng.choice(["none", "warmup", "posterior", "single", "dense", "sparse"]))
        cells = []
        if style == "single":
            cells.append([int(rng.integers(C)), int(rng.integers(1, T)), int(rng.choice([1, 2, 3, -1]))])
        elif style != "none":
            dens = 0.5 if style == "dense" else 0.15
            for c in range(C):
                for t in range(1, T):
                    if style == "warmup" and first_post is not None and t >= first_post:
                        continue
                    if style == "posterior" and (first_post is None or t < first_post):
                        continue
                    if rng.random() < dens:
                        cells.append([c, t, int(rng.choice([1, 2, 3, -1]))])
        out.append({"style": style, "cells": cells})
    return out


def first_posterior_time(spec):
    t = 1
    for ty, d, _ in spec:
        if ty == 4:
            return t
        t += d
    return None


def init_value(chain, kidx, shape, dtype):
    n = int(np.prod(shape)) if shape else 1
    v = (chain * 11 + kidx * 5) + np.arange(n)
    return v.reshape(shape).astype(dtype)


def kid(ki: int) -> str:
    """Kernel identifiers chosen by the 'user': deliberately NOT in alphabetical order of the configured
    sequence (k7, k6, k5, ...), so that anything that orders kernels by name shows up."""
    return f"k{7 - ki}"


def replicated(case):
    """Through the builder one state is replicated to all chains (unless multi-chain
    initial values are requested explicitly)."""
    return case["via"] == "builder" and not case.get("multi_init", False)


def all_keys(case):
    return [k for b in case["kernels"] for k in b["keys"]]


def make_states(case, chain_override=None):
    """Stacked per-chain initial model states (dict model)."""
    import jax.numpy as jnp

    C = case["chains"]
    keys = sorted(case["shapes"])
    st = {}
    for ki, k in enumerate(keys):
        vals = []
        for c in range(C):
            v = init_value(0 if replicated(case) else c, ki, case["shapes"][k], case["dtypes"][k])
            if chain_override and c in chain_override:
                v = v + np.asarray(chain_override[c], dtype=v.dtype)
            vals.append(v)
        st[k] = jnp.asarray(np.stack(vals))
    st["chain"] = (jnp.zeros(C, dtype=jnp.int32) if replicated(case)
                   else jnp.arange(C, dtype=jnp.int32))
    st["z"] = jnp.full((C,), 7.0, jnp.float32)
    return st


def make_iface_states(case, chain_override=None):
    """(interface, stacked per-chain states).  Dict model by default; with
    case['liesel'] a Liesel graph model with a derived Calc node ('derived')."""
    import jax.numpy as jnp
    import liesel.goose as gs

    if not case.get("liesel"):
        return gs.DictInterface(lambda s: jnp.asarray(0.0)), make_states(case, chain_override)
    import liesel.model as lsl
    from liesel.goose.pytree import stack_leaves

    keys = sorted(case["shapes"])
    vs = {k: lsl.Var(jnp.asarray(init_value(0, ki, case["shapes"][k], case["dtypes"][k])), name=k)
          for ki, k in enumerate(keys)}
    chain = lsl.Var(jnp.asarray(0, jnp.int32), name="chain")
    z = lsl.Var(jnp.asarray(7.0, jnp.float32), name="z")

    def total(*xs):
        return sum(jnp.sum(x.astype(jnp.float32)) for x in xs)

    derived = lsl.Calc(total, *[vs[k] for k in keys], _name="derived")
    model = lsl.GraphBuilder().add(derived, chain, z).build_model()
    iface = gs.LieselInterface(model)
    base = model.state
    sts = []
    for c in range(case["chains"]):
        cc = 0 if replicated(case) else c
        pos = {}
        for ki, k in enumerate(keys):
            v = init_value(cc, ki, case["shapes"][k], case["dtypes"][k])
            if chain_override and c in chain_override:
                v = v + np.asarray(chain_override[c], dtype=v.dtype)
            pos[k] = jnp.asarray(v)
        pos["chain"] = jnp.asarray(cc, jnp.int32)
        sts.append(iface.update_state(pos, base))
    return iface, stack_leaves(sts)


def make_kernels(case, write=True):
    T = total_time(case["spec"])
    nlog = T + 4 * len(case["spec"]) + 8
    ks = []
    blocks = case["kernels"]
    for ki, b in enumerate(blocks):
        if ki == 0:
            prev = blocks[-1]["keys"][0]
        else:
            prev = blocks[ki - 1]["keys"][0]
        tab = None
        if case.get("err"):
            tab = np.zeros((case["chains"], T + 1), np.int32)
            for c, t, code in case["err"][ki]["cells"]:
                tab[c, t] = code
        cls = ProbeKernelB if ki % 2 else ProbeKernel
        ks.append(cls(b["keys"], ki, nlog, prev_key=prev, needs_history=b["needs_history"],
                              err_table=tab, write=write, identifier=kid(ki),
                              warmup_error=(b.get("warmup_error", 0))))
    return ks


def build_engine(case, epochs, *, states=None, kernels=None, position_keys=None,
                 store_kernel_states=True, quantity_generators=(), minimize=False):
    """Returns (engine, kernels, states)."""
    import jax
    import jax.numpy as jnp
    import liesel.goose as gs
    from liesel.goose.engine import Engine
    from liesel.goose.kernel_sequence import KernelSequence

    iface, states0 = make_iface_states(case)
    if states is None:
        states = states0
    if kernels is None:
        kernels = make_kernels(case)
    C = case["chains"]
    if case["via"] == "builder":
        if case["idx"] % 2:
            # another builder was configured earlier in the same process (its lists modified in place, its kernel list
            # filled); nothing of it may show up in the builder configured below
            decoy = gs.EngineBuilder(seed=1, num_chains=1)
            decoy.positions_included.append("decoy_included")
            decoy.positions_excluded.extend(all_keys(case)[:1])
            try:
                decoy.kernels.append(None)
                decoy.quantity_generators.append(None)
            except AttributeError:      # read-only views
                pass
        b = gs.EngineBuilder(seed=case["engine_seed"], num_chains=C)
        b.show_progress = False
        b.store_kernel_states = store_kernel_states
        b.minimize_transition_infos = minimize
        b.set_model(iface)
        if case.get("multi_init", False):
            b.set_initial_values(states, multiple_chains=True)
        else:
            one = jax.tree_util.tree_map(lambda v: v[0], states)
            b.set_initial_values(one)
        for k in kernels:
            b.add_kernel(k)
        for q in quantity_generators:
            b.add_quantity_generator(q)
        b.set_epochs(epochs)
        if position_keys is not None:
            if case["idx"] % 4 >= 2:
                # in place, as in the documentation (`builder.positions_included.append(...)`)
                b.positions_included.extend(position_keys.get("included", []))
                b.positions_excluded += list(position_keys.get("excluded", []))
            else:
                b.positions_included = list(position_keys.get("included", []))
                b.positions_excluded = list(position_keys.get("excluded", []))
        if case["idx"] % 3 == 0:
            # an earlier engine was built from the same builder and has already run (and been extended): the engine
            # built now starts from scratch all the same
            from liesel.goose.epoch import EpochConfig, EpochType

            pre = b.build()
            pre.sample_next_epoch()
            if len(epochs) > 1:
                pre.sample_next_epoch()
            else:
                pre.append_epoch(EpochConfig(EpochType.BURNIN, case["chunk"], 1, None))
        eng = b.build()
    else:
        for k in kernels:
            k.set_model(iface)
        for q in quantity_generators:
            q.set_model(iface)
        seeds = jax.random.split(jax.random.PRNGKey(case["engine_seed"]), C)
        pk = None
        if position_keys is not None:
            pk = [k for k in all_keys(case) + list(position_keys.get("included", []))
                  if k not in position_keys.get("excluded", [])]
        eng = Engine(seeds=seeds, model_states=states, kernel_sequence=KernelSequence(kernels),
                     epoch_configs=epochs, jitted_sample_duration=case["chunk"], model=iface,
                     position_keys=pk, store_kernel_states=store_kernel_states,
                     minimize_transition_infos=minimize,
                     quantity_generators=list(quantity_generators), show_progress=False)
    return eng, kernels, states


def peek(eng, case):
    """The user looks at the results while the run is still going on (every accessor a summary would use). Whatever is
    read here must not freeze what later reads return."""
    if case["idx"] % 2:
        return
    r = eng.get_results()
    for f in (lambda: r.get_posterior_samples(), lambda: r.get_samples(), lambda: r.get_posterior_transition_infos(),
              lambda: r.get_error_log(), lambda: r.get_error_log(posterior_only=True), lambda: r.get_tuning_times()):
        try:
            f()
        except Exception:  # noqa: BLE001  (e.g. "no posterior samples" so far)
            pass


def drive(case, **kw):
    """Build and run according to case['mode']. Returns (engine, kernels, states)."""
    eps = mk_epochs(case["spec"], share=bool(case.get("share_configs")))
    mode = case["mode"]
    if case["via"] == "builder" and mode != "all":
        # builder computes the chunk from the epochs it is given: hand it all epochs, but
        # drive one epoch at a time
        eng, kernels, states = build_engine(case, eps, **kw)
        while not eng.is_sampling_done():
            eng.sample_next_epoch()
            peek(eng, case)
        return eng, kernels, states
    if mode == "all":
        eng, kernels, states = build_engine(case, eps, **kw)
        eng.sample_all_epochs()
    elif mode == "append":
        eng, kernels, states = build_engine(case, eps[:1], **kw)
        eng.sample_next_epoch()
        for j, e in enumerate(eps[1:]):
            if case.get("bad_appends"):
                try_bad_append(eng, j, case["chunk"])
            eng.append_epoch(e)
            eng.sample_next_epoch()
            peek(eng, case)
    else:  # mixed
        s = 1 + case.get("split", 1)
        eng, kernels, states = build_engine(case, eps[:s], **kw)
        eng.sample_all_epochs()
        peek(eng, case)
        rest = eps[s:]
        i = 0
        while i < len(rest):
            n = 1 + (i % 2)
            for e in rest[i: i + n]:
                if case.get("bad_appends"):
                    try_bad_append(eng, i, case["chunk"])
                eng.append_epoch(e)
            eng.sample_all_epochs()
            peek(eng, case)
            i += n
    return eng, kernels, states


def try_bad_append(eng, j, chunk):
    """An invalid epoch is offered to append_epoch; the rejection must leave the schedule untouched."""
    from liesel.goose.epoch import EpochConfig, EpochType

    d = 3 * chunk
    bad = [EpochConfig(EpochType.POSTERIOR, d, 2 * d, None),            # thinning > duration
           EpochConfig(EpochType.BURNIN, d, 0, None),                   # thinning < 1
           EpochConfig(EpochType.POSTERIOR, 5 * chunk, 2 * chunk + 1, None) if (5 * chunk) % (2 * chunk + 1) else
           EpochConfig(EpochType.POSTERIOR, 7 * chunk, 2 * chunk + 1, None),   # duration not a multiple of thinning
           EpochConfig(EpochType.INITIAL_VALUES, 1, 1, None),           # a second initial-values epoch
           EpochConfig(EpochType.FAST_ADAPTATION, 0, 1, None)][j % 5]   # duration < 1
    try:
        eng.append_epoch(bad)
    except RuntimeError:
        return
    raise AssertionError(f"append_epoch accepted the invalid epoch {bad}")


# ---------------------------------------------------------------------------
# pure-Python twins
# ---------------------------------------------------------------------------

def simulate(case, chain_override=None):
    """Expected full trajectory: traj[chain][t][key] for t = 0..T-1 (t=0 initial)."""
    keys = sorted(case["shapes"])
    blocks = case["kernels"]
    T = total_time(case["spec"])
    out = []
    for c in range(case["chains"]):
        cur = {}
        for ki, k in enumerate(keys):
            v = init_value(0 if replicated(case) else c, ki, case["shapes"][k], case["dtypes"][k])
            if chain_override and c in chain_override:
                v = v + np.asarray(chain_override[c], dtype=v.dtype)
            cur[k] = v
        traj = [dict(cur)]
        for t in range(1, T):
            for ki, b in enumerate(blocks):
                prev_key = blocks[-1]["keys"][0] if ki == 0 else blocks[ki - 1]["keys"][0]
                prev = int(np.ravel(cur[prev_key])[0])
                v = det_next(t, ki, prev)
                for j, k in enumerate(b["keys"]):
                    shape = case["shapes"][k]
                    n = int(np.prod(shape)) if shape else 1
                    cur[k] = (v + j + np.arange(n)).reshape(shape).astype(case["dtypes"][k])
            traj.append(dict(cur))
        out.append(traj)
    return out


def stored_times(spec):
    """Global times (index into the trajectory) stored per epoch, by the documented thinning
    rule: within-epoch iterations k, 2k, ... ; epoch 0 stores the initial values."""
    out = [[0]]
    t0 = 1
    for _, d, k in spec:
        out.append([t0 + j - 1 for j in range(1, d + 1) if j % k == 0])
        t0 += d
    return out


def expected_trace(case, ki):
    """Expected event list of kernel ki (per chain, identical for all chains)."""
    ev = [{"kind": "init"}]
    t0 = 1
    seen_post = False
    for n, (ty, d, k) in enumerate(case["spec"], start=1):
        if ty == 4 and not seen_post:
            ev.append({"kind": "end_warmup"})
            seen_post = True
        ev.append({"kind": "start", "nth": n, "type": ty, "time": t0, "tie": 0, "dur": d, "thin": k})
        for i in range(d):
            ev.append({"kind": "adaptive" if ty in (1, 2) else "standard", "nth": n, "type": ty,
                       "time": t0 + i, "tie": i, "dur": d, "thin": k})
        ev.append({"kind": "end", "nth": n, "type": ty})
        if ty == 1:
            ev.append({"kind": "tune_fast", "nth": n, "type": ty})
        elif ty == 2:
            ev.append({"kind": "tune_slow", "nth": n, "type": ty})
        t0 += d
    return ev


def final_logs(eng, kernels):
    """Per kernel: (ilog [C, L, NF], seq [C]) from the engine's final kernel states."""
    ks = getattr(eng, "_kernel_states")
    out = []
    for i, _ in enumerate(kernels):
        out.append((np.asarray(ks[i]["ilog"]), np.asarray(ks[i]["seq"])))
    return out
