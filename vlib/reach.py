"""sys.monitoring reach counters for anchor functions of the code under test.

PY_START events on code objects under $LIESEL_REPO/liesel whose qualname is in the
anchor set are counted; all other code objects are DISABLEd at first sight (cheap).
Under jit the Python body runs at trace time only, so a count then means "traced".
"""

from __future__ import annotations

import atexit
import os
import sys

from .common import LIESEL_REPO

_TOOL = 4  # a free tool id (0..5); 4 is unclaimed by debugger/coverage/profiler
_counts: dict[str, int] = {}
_active = False


def start(anchors) -> None:
    """anchors: iterable of 'file.py:Qual.name' (path relative to liesel/) or 'Qual.name'."""
    global _active
    if _active or not hasattr(sys, "monitoring"):
        return
    mon = sys.monitoring
    root = os.path.join(LIESEL_REPO, "liesel") + os.sep
    by_q: dict[str, list[str | None]] = {}
    for a in anchors:
        if ":" in a:
            f, q = a.split(":", 1)
        else:
            f, q = None, a
        by_q.setdefault(q, []).append(f)
        _counts.setdefault(a, 0)

    def on_start(code, offset):
        q = code.co_qualname
        files = by_q.get(q)
        if files is None:
            return mon.DISABLE
        fn = code.co_filename
        if not fn.startswith(root):
            fn = os.path.realpath(fn)
            if not fn.startswith(root):
                return mon.DISABLE
        rel = fn[len(root):]
        hit = False
        for f in files:
            if f is None:
                _counts[q] = _counts.get(q, 0) + 1
                hit = True
            elif rel == f:
                key = f"{f}:{q}"
                _counts[key] = _counts.get(key, 0) + 1
                hit = True
        if not hit:
            return mon.DISABLE
        return None

    try:
        mon.use_tool_id(_TOOL, "verif-reach")
    except ValueError:
        return
    mon.register_callback(_TOOL, mon.events.PY_START, on_start)
    mon.set_events(_TOOL, mon.events.PY_START)
    _active = True
    atexit.register(stop)


def stop() -> None:
    global _active
    if not _active:
        return
    mon = sys.monitoring
    try:
        mon.set_events(_TOOL, 0)
        mon.register_callback(_TOOL, mon.events.PY_START, None)
        mon.free_tool_id(_TOOL)
    except Exception:  # noqa: BLE001
        pass
    _active = False


def counts() -> dict[str, int]:
    return dict(_counts)
