"""Worker process: runs a shard of cases of one check module.

usage: python -m vlib.worker <module> <infile.json> <outfile.json>
"""

from __future__ import annotations

import importlib
import json
import os
import sys
import time
import traceback


def main() -> int:
    modname, infile, outfile = sys.argv[1:4]
    with open(infile) as f:
        job = json.load(f)
    cases = job["cases"]

    if job.get("x64"):
        os.environ["JAX_ENABLE_X64"] = "1"

    from . import reach
    from .common import CaseResult, exc_mech

    mod = importlib.import_module(modname)
    anchors = getattr(mod, "ANCHORS", [])
    if anchors:
        reach.start(anchors)

    out = {"results": [], "harness_errors": [], "reach": {}, "t": []}
    t00 = time.time()
    for case in cases:
        t0 = time.time()
        try:
            r = mod.run_case(case)
            if isinstance(r, CaseResult):
                r = r.as_dict()
            r["case"] = case
        except Exception as exc:  # noqa: BLE001
            mech, text = exc_mech(exc)
            r = CaseResult(case)
            r.evals = 1
            if mech is None:
                out["harness_errors"].append(
                    {"case": case, "trace": traceback.format_exc()[-3000:]}
                )
            else:
                r.violation(mech, f"uncaught exception from liesel\n{text}", case)
            r = r.as_dict()
        r["wall"] = time.time() - t0
        out["results"].append(r)
        # incremental dump so that a timeout still leaves partial results
        if time.time() - t00 > 20:
            t00 = time.time()
            out["reach"] = reach.counts()
            with open(outfile + ".part", "w") as f:
                json.dump(out, f)
    out["reach"] = reach.counts()
    out["complete"] = True
    with open(outfile, "w") as f:
        json.dump(out, f)
    return 0


if __name__ == "__main__":
    sys.exit(main())
