"""Generated statistical model programs with an independent float64 scipy/numpy oracle.

A program is a JSON list of items (see gen_model).  `build` constructs the liesel model,
`Oracle` evaluates every density in float64 from the program description and the current
values, without touching a liesel node or TFP.
"""

from __future__ import annotations

import numpy as np
from scipy import special, stats

# --------------------------------------------------------------------------- oracle densities


def logpdf(fam, x, a):
    x = np.asarray(x, np.float64)
    g = lambda k: np.asarray(a[k], np.float64)  # noqa: E731
    if fam == "Normal":
        return stats.norm.logpdf(x, g("loc"), g("scale"))
    if fam == "Gamma":
        return stats.gamma.logpdf(x, g("concentration"), scale=1.0 / g("rate"))
    if fam == "InverseGamma":
        return stats.invgamma.logpdf(x, g("concentration"), scale=g("scale"))
    if fam == "HalfNormal":
        return stats.halfnorm.logpdf(x, scale=g("scale"))
    if fam == "Exponential":
        return stats.expon.logpdf(x, scale=1.0 / g("rate"))
    if fam == "Beta":
        return stats.beta.logpdf(x, g("concentration1"), g("concentration0"))
    if fam == "Poisson":
        return stats.poisson.logpmf(x, g("rate"))
    if fam == "Bernoulli":
        p = g("probs")
        return x * np.log(p) + (1 - x) * np.log1p(-p)
    if fam == "LogNormal":
        return stats.lognorm.logpdf(x, g("scale"), scale=np.exp(g("loc")))
    if fam == "MVNDegenerate":
        K = g("pen")
        var = float(g("var"))
        r = int(a["rank"])
        lam = np.sort(np.linalg.eigvalsh(K))[::-1][:r]
        xc = x - g("loc")
        quad = xc @ (K / var) @ xc
        return -0.5 * (r * np.log(2 * np.pi) - (np.sum(np.log(lam)) - r * np.log(var))) - 0.5 * quad
    raise ValueError(fam)


def tfp_family(fam):
    import tensorflow_probability.substrates.jax.distributions as tfd
    from liesel.distributions import MultivariateNormalDegenerate

    if fam == "MVNDegenerate":
        return MultivariateNormalDegenerate.from_penalty
    return getattr(tfd, fam)


def apply_op(op, args, extra):
    a = [np.asarray(x, np.float64) for x in args]
    if op == "affine":
        return extra["a"] + extra["b"] * a[0]
    if op == "exp":
        return np.exp(a[0])
    if op == "sigmoid":
        return special.expit(a[0])
    if op == "gather":
        return a[0][np.asarray(extra["idx"])]
    if op == "matvec":
        return np.asarray(extra["X"], np.float64) @ a[0]
    if op == "add":
        return a[0] + a[1]
    if op == "sqrt":
        return np.sqrt(a[0])
    raise ValueError(op)


def jax_op(op, extra):
    import jax
    import jax.numpy as jnp

    if op == "affine":
        return lambda x: extra["a"] + extra["b"] * x
    if op == "exp":
        return jnp.exp
    if op == "sigmoid":
        return jax.nn.sigmoid
    if op == "gather":
        idx = np.asarray(extra["idx"])
        return lambda x: x[idx]
    if op == "matvec":
        X = jnp.asarray(np.asarray(extra["X"]))
        return lambda b: X.astype(b.dtype) @ b
    if op == "add":
        return lambda x, y: x + y
    if op == "sqrt":
        return jnp.sqrt
    raise ValueError(op)


# --------------------------------------------------------------------------- generation
POSITIVE = ("Gamma", "InverseGamma", "HalfNormal", "Exponential", "LogNormal")


def prior_args(rng, fam):
    u = lambda lo, hi: float(np.round(np.exp(rng.uniform(np.log(lo), np.log(hi))), 3))  # noqa: E731
    if fam == "Normal":
        return {"loc": {"c": float(rng.integers(-2, 3))}, "scale": {"c": u(0.5, 5)}}
    if fam == "Gamma":
        return {"concentration": {"c": u(0.5, 4)}, "rate": {"c": u(0.3, 3)}}
    if fam == "InverseGamma":
        return {"concentration": {"c": u(1.5, 4)}, "scale": {"c": u(0.3, 3)}}
    if fam == "HalfNormal":
        return {"scale": {"c": u(0.5, 4)}}
    if fam == "Exponential":
        return {"rate": {"c": u(0.3, 3)}}
    if fam == "LogNormal":
        return {"loc": {"c": float(rng.integers(-1, 2))}, "scale": {"c": u(0.3, 1.5)}}
    if fam == "Beta":
        return {"concentration1": {"c": u(0.8, 4)}, "concentration0": {"c": u(0.8, 4)}}
    raise ValueError(fam)


def draw_value(rng, fam, shape):
    if fam == "Normal":
        return np.round(rng.normal(0, 1.5, size=shape), 3)
    if fam in POSITIVE or fam == "positive":
        return np.round(np.exp(rng.normal(0, 0.7, size=shape)), 3)
    if fam == "Beta":
        return np.round(rng.uniform(0.08, 0.92, size=shape), 3)
    if fam == "Poisson":
        return rng.poisson(3.0, size=shape).astype(np.float64)
    if fam == "Bernoulli":
        return rng.integers(0, 2, size=shape).astype(np.float64)
    if fam == "MVNDegenerate":
        return np.round(rng.normal(0, 1.0, size=shape), 3)
    raise ValueError(fam)


def diff_penalty(m, order):
    D = np.eye(m)
    for _ in range(order):
        D = np.diff(D, axis=0)
    return D.T @ D


DEFAULT_BIJECTOR = {"Gamma": "softplus", "InverseGamma": "chain_of_reciprocal_of_softplus", "HalfNormal": "softplus", "Exponential": "softplus",
                    "LogNormal": "exp"}


def pick_transform(rng, p):
    """False | 'exp' (explicit Var.transform(tfb.Exp())) | 'auto' (auto_transform at build, default bijector)."""
    if rng.random() >= p:
        return False
    return "exp" if rng.random() < 0.6 else "auto"


def bij_kind(it):
    if not it.get("transform"):
        return None
    return "exp" if it["transform"] in (True, "exp") else DEFAULT_BIJECTOR[it["fam"]]


def to_unconstrained(kind, x):
    x = np.asarray(x, np.float64)
    if kind == "exp":
        return np.log(x)
    if kind == "softplus":
        return np.log(np.expm1(x))
    return np.log(np.expm1(1.0 / x))      # x = 1/softplus(t)


def log_jac(kind, x):
    """log |d x / d t| as a function of the constrained value x."""
    x = np.asarray(x, np.float64)
    if kind == "exp":
        return np.log(x)
    if kind == "softplus":
        t = np.log(np.expm1(x))
        return t - x          # log sigmoid(t) = t - softplus(t)
    t = np.log(np.expm1(1.0 / x))
    return (t - 1.0 / x) + 2 * np.log(x)   # |d/dt 1/sp(t)| = sigmoid(t)/sp(t)^2


def gen_model(rng):
    """A hierarchical model program.  Items are dicts, in dependency order."""
    items = []
    n = int(rng.integers(4, 12))
    G = int(rng.integers(2, 4))
    # scale hyper-prior (positive family), optionally transformed
    fam_tau = str(rng.choice(POSITIVE))
    items.append({"t": "var", "name": "tau", "role": "param", "fam": fam_tau, "args": prior_args(rng, fam_tau),
                  "shape": [], "transform": pick_transform(rng, 0.5), "per_obs": True})
    mu0_is_var = rng.random() < 0.5
    if mu0_is_var:
        items.append({"t": "var", "name": "mu0", "role": "param", "fam": "Normal", "args": prior_args(rng, "Normal"),
                      "shape": [], "per_obs": True})
    mu0 = {"v": "mu0"} if mu0_is_var else {"c": float(rng.integers(-2, 3))}
    # group effects ~ Normal(mu0, tau)
    items.append({"t": "var", "name": "theta", "role": "param", "fam": "Normal", "args": {"loc": mu0, "scale": {"v": "tau"}},
                  "shape": [G], "per_obs": bool(rng.random() < 0.5)})
    idx = [int(x) for x in rng.integers(0, G, size=n)]
    items.append({"t": "calc", "name": "eta_g", "op": "gather", "args": [{"v": "theta"}], "extra": {"idx": idx},
                  "as_var": bool(rng.random() < 0.5)})
    if rng.random() < 0.35:
        # a weak variable that has a distribution of its own (reachable through Dist.at only)
        items[-1]["as_var"] = True
        items[-1]["dist"] = {"fam": "Normal", "args": {"loc": {"c": 0.0}, "scale": {"c": 3.0}},
                             "role": str(rng.choice(["none", "param", "obs"])), "per_obs": bool(rng.random() < 0.5)}
    eta = "eta_g"
    # optional regression part, prior Normal or degenerate MVN
    if rng.random() < 0.7:
        p = int(rng.integers(2, 5))
        X = np.round(rng.normal(size=(n, p)), 2).tolist()
        if rng.random() < 0.5 and p >= 3:
            order = int(rng.choice([1, 2])) if p >= 3 else 1
            K = diff_penalty(p, order)
            if rng.random() < 0.3:
                K = K + np.eye(p) * 0.5
            r = int(np.linalg.matrix_rank(K))
            fam_t2 = str(rng.choice(["InverseGamma", "Gamma", "HalfNormal"]))
            items.append({"t": "var", "name": "tau2", "role": "param", "fam": fam_t2, "args": prior_args(rng, fam_t2),
                          "shape": [], "transform": pick_transform(rng, 0.4), "per_obs": True})
            items.append({"t": "var", "name": "beta", "role": "param", "fam": "MVNDegenerate",
                          "args": {"loc": {"c": 0.0}, "var": {"v": "tau2"}, "pen": {"c": K.tolist()}, "rank": {"c": r}},
                          "shape": [p], "per_obs": True})
        else:
            items.append({"t": "var", "name": "beta", "role": "param", "fam": "Normal", "args": prior_args(rng, "Normal"),
                          "shape": [p], "per_obs": bool(rng.random() < 0.5)})
        items.append({"t": "calc", "name": "xb", "op": "matvec", "args": [{"v": "beta"}], "extra": {"X": X},
                      "as_var": bool(rng.random() < 0.5)})
        items.append({"t": "calc", "name": "eta", "op": "add", "args": [{"v": "eta_g"}, {"v": "xb"}], "extra": {},
                      "as_var": bool(rng.random() < 0.6)})
        eta = "eta"
    lik = str(rng.choice(["Normal", "Poisson", "Bernoulli"]))
    if lik == "Normal":
        fam_s = str(rng.choice(["HalfNormal", "Gamma", "Exponential", "fixed"]))
        if fam_s == "fixed":
            sig = {"c": 0.8}
        else:
            items.append({"t": "var", "name": "sigma", "role": "param", "fam": fam_s, "args": prior_args(rng, fam_s),
                          "shape": [], "transform": pick_transform(rng, 0.5), "per_obs": True})
            sig = {"v": "sigma"}
        items.append({"t": "var", "name": "y", "role": "obs", "fam": "Normal", "args": {"loc": {"v": eta}, "scale": sig},
                      "shape": [n], "per_obs": bool(rng.random() < 0.6)})
    elif lik == "Poisson":
        items.append({"t": "calc", "name": "rate", "op": "exp", "args": [{"v": eta}], "extra": {}, "as_var": bool(rng.random() < 0.5)})
        items.append({"t": "var", "name": "y", "role": "obs", "fam": "Poisson", "args": {"rate": {"v": "rate"}},
                      "shape": [n], "per_obs": bool(rng.random() < 0.6)})
    else:
        items.append({"t": "calc", "name": "prob", "op": "sigmoid", "args": [{"v": eta}], "extra": {}, "as_var": bool(rng.random() < 0.5)})
        items.append({"t": "var", "name": "y", "role": "obs", "fam": "Bernoulli", "args": {"probs": {"v": "prob"}},
                      "shape": [n], "per_obs": bool(rng.random() < 0.6)})
    # extras
    if rng.random() < 0.4:
        items.append({"t": "var", "name": "pi", "role": "param", "fam": "Beta", "args": prior_args(rng, "Beta"),
                      "shape": [], "per_obs": True})
        items.append({"t": "var", "name": "z", "role": str(rng.choice(["none", "obs", "both"])), "fam": "Bernoulli",
                      "args": {"probs": {"v": "pi"}}, "shape": [3], "per_obs": bool(rng.random() < 0.5)})
    if rng.random() < 0.35:
        # a distribution without a variable, evaluated at an intermediate node
        items.append({"t": "freedist", "name": "free_lp", "fam": "Normal", "args": {"loc": {"c": 0.0}, "scale": {"c": 2.0}},
                      "at": eta, "per_obs": bool(rng.random() < 0.5)})
    if rng.random() < 0.3:
        # ("both": flagged as parameter AND observed - it then counts in the log-prior and in the log-likelihood)
        items.append({"t": "var", "name": "w", "role": str(rng.choice(["none", "both"])), "fam": "Normal", "args": {"loc": mu0, "scale": {"c": 1.5}},
                      "shape": [2], "per_obs": bool(rng.random() < 0.5)})
    if rng.random() < 0.4:
        # a leaf weak variable with its own distribution: nothing else consumes it, so it is reachable
        # from the totals only through the `at` link of its distribution node
        items.append({"t": "calc", "name": "zw", "op": "affine", "args": [{"v": "theta"}],
                      "extra": {"a": float(rng.integers(-1, 2)), "b": float(rng.choice([0.5, 2.0]))}, "as_var": True,
                      "dist": {"fam": "Normal", "args": {"loc": {"c": 0.0}, "scale": {"c": 3.0}},
                               "role": str(rng.choice(["none", "param", "obs", "both"])), "per_obs": bool(rng.random() < 0.5)}})
    user = {}
    r = rng.random()
    if r < 0.06:
        user["log_lik"] = "array"
    elif r < 0.12:
        user["log_lik"] = True
    elif r < 0.24:
        user["log_prior"] = True
    elif r < 0.32:
        user["log_prob"] = True
    return {"items": items, "user": user, "n": n}


# --------------------------------------------------------------------------- build
class Built:
    pass


class RejectedAssignmentChanged(Exception):
    """A node re-assignment that liesel rejected (RuntimeError) nevertheless changed the target variable."""


def build(desc, x64=False, flip_per_obs=None, initial=None, mistakes=None):
    """Build the liesel model.  flip_per_obs: set of names whose per_obs is flipped.
    initial: dict name -> value (original scale) to start from."""
    import jax.numpy as jnp
    import liesel.model as lsl
    import tensorflow_probability.substrates.jax.bijectors as tfb

    ft = jnp.float64 if x64 else jnp.float32
    flip = flip_per_obs or set()
    objs = {}
    nodes = {}
    transformed = {}
    auto = []

    def ref(r):
        if "c" in r:
            c = r["c"]
            if isinstance(c, int):
                return c
            return jnp.asarray(np.asarray(c, np.float64), ft)
        return objs[r["v"]]

    gb = lsl.GraphBuilder(to_float32=not x64)
    for it in desc["items"]:
        if it["t"] == "var":
            val = np.asarray(initial[it["name"]], np.float64)
            args = {k: ref(v) for k, v in it["args"].items()}
            dist = lsl.Dist(tfp_family(it["fam"]), **args)
            po = it["per_obs"] != (it["name"] in flip)
            dist.per_obs = po
            dtype = ft
            v = lsl.Var(jnp.asarray(val, dtype), dist, name=it["name"])
            if it["role"] in ("param", "both"):
                v.parameter = True
            if it["role"] in ("obs", "both"):
                v.observed = True
            objs[it["name"]] = v
            if it.get("transform") in (True, "exp"):
                tv = v.transform(tfb.Exp())
                transformed[it["name"]] = tv
            elif it.get("transform") == "auto":
                v.auto_transform = True
                auto.append(it["name"])
        elif it["t"] == "calc":
            f = jax_op(it["op"], it["extra"])
            c = lsl.Calc(f, *[ref(a) for a in it["args"]], _name="" if it["as_var"] else it["name"])
            if it["as_var"]:
                wd = None
                if it.get("dist"):
                    dd = it["dist"]
                    wd = lsl.Dist(tfp_family(dd["fam"]), **{k: ref(v) for k, v in dd["args"].items()})
                    wd.per_obs = dd["per_obs"] != (it["name"] in flip)
                wv = lsl.Var(c, wd, name=it["name"])
                if it.get("dist"):
                    if it["dist"]["role"] in ("param", "both"):
                        wv.parameter = True
                    if it["dist"]["role"] in ("obs", "both"):
                        wv.observed = True
                objs[it["name"]] = wv
            else:
                objs[it["name"]] = c
        elif it["t"] == "freedist":
            d = lsl.Dist(tfp_family(it["fam"]), _name=it["name"], **{k: ref(v) for k, v in it["args"].items()})
            tgt = objs[it["at"]]
            d.at = tgt.var_value_node if isinstance(tgt, lsl.Var) else tgt
            d.per_obs = it["per_obs"] != (it["name"] in flip)
            objs[it["name"]] = d
            gb.add(d)
    # user mistakes before the build: assignments liesel rejects (a node can belong to one variable only) must
    # leave the variables as they were
    n_rej = 0
    for tgt_name, src_name, what in (mistakes or []):
        tgt, src = objs[tgt_name], objs[src_name]
        own_d, own_v = tgt.dist_node, tgt.value_node
        try:
            if what == "dist":
                tgt.dist_node = src.dist_node
            else:
                tgt.value_node = src.value_node
        except RuntimeError:
            n_rej += 1
        if tgt.dist_node is not own_d or tgt.value_node is not own_v:
            raise RejectedAssignmentChanged(f"the rejected assignment {tgt_name}.{what}_node = {src_name}.{what}_node left {tgt_name} with "
                                            f"another {what} node ({(tgt.dist_node if what == 'dist' else tgt.value_node)!r} instead of "
                                            f"{(own_d if what == 'dist' else own_v)!r})")
    for o in objs.values():
        gb.add(o)
    b = Built()
    b.n_rejected = n_rej
    b.user_nodes = {}
    if desc["user"].get("log_lik") == "array":
        # a per-observation (array-valued) user log-likelihood: must be forwarded unchanged, not reduced
        n_ = lsl.Calc(lambda y: -jnp.abs(y) * 0.5, objs["y"], _name="user_ll")
        gb.log_lik_node = n_
        b.user_nodes["log_lik"] = n_
    elif desc["user"].get("log_lik"):
        n_ = lsl.Calc(lambda y: -jnp.sum(jnp.abs(y)) * 0.5, objs["y"], _name="user_ll")
        gb.log_lik_node = n_
        b.user_nodes["log_lik"] = n_
    if desc["user"].get("log_prior"):
        n_ = lsl.Calc(lambda t: -jnp.sum(t ** 2), objs["theta"], _name="user_lprior")
        gb.log_prior_node = n_
        b.user_nodes["log_prior"] = n_
    if desc["user"].get("log_prob"):
        n_ = lsl.Calc(lambda t, y: -jnp.sum(t ** 2) - jnp.sum(y ** 2) * 0.1, objs["theta"], objs["y"], _name="user_lprob")
        gb.log_prob_node = n_
        b.user_nodes["log_prob"] = n_
    b.model = gb.build_model()
    b.objs = objs
    for nm in auto:
        transformed[nm] = b.model.vars[nm + "_transformed"]
    b.transformed = transformed
    b.ft = ft
    return b


def user_value(which, values, kind=True):
    if which == "log_lik" and kind == "array":
        return -np.abs(np.asarray(values["y"], np.float64)) * 0.5
    if which == "log_lik":
        return -np.sum(np.abs(values["y"])) * 0.5
    if which == "log_prior":
        return -np.sum(np.asarray(values["theta"]) ** 2)
    return -np.sum(np.asarray(values["theta"]) ** 2) - np.sum(np.asarray(values["y"]) ** 2) * 0.1


def initial_values(desc, rng):
    out = {}
    for it in desc["items"]:
        if it["t"] == "var":
            out[it["name"]] = draw_value(rng, it["fam"], tuple(it["shape"]))
    return out


def oracle(desc, values):
    """values: name -> current value on the ORIGINAL scale for every strong var.
    returns dict(log_prob, log_lik, log_prior, abs_terms, classes)."""
    env = dict(values)

    def ref(r):
        return np.asarray(r["c"], np.float64) if "c" in r else np.asarray(env[r["v"]], np.float64)

    lp = ll = lpr = 0.0
    abs_terms = 0.0
    cond = 0.0   # conditioning of log(1-p) / log(p) for probabilities close to 0 or 1
    min_p = 0.5
    all_classified = True
    for it in desc["items"]:
        if it["t"] == "calc":
            env[it["name"]] = apply_op(it["op"], [ref(a) for a in it["args"]], it["extra"])
            if it.get("dist"):
                dd = it["dist"]
                terms = np.asarray(logpdf(dd["fam"], env[it["name"]], {k: ref(v) for k, v in dd["args"].items()}), np.float64)
                lp += float(terms.sum())
                abs_terms += float(np.abs(terms).sum())
                if dd["role"] in ("param", "both"):
                    lpr += float(terms.sum())
                if dd["role"] in ("obs", "both"):
                    ll += float(terms.sum())
                if dd["role"] not in ("param", "obs"):
                    all_classified = False
        elif it["t"] == "var":
            a = {k: (v["c"] if ("c" in v and k == "rank") else ref(v)) for k, v in it["args"].items()}
            terms = np.asarray(logpdf(it["fam"], env[it["name"]], a), np.float64)
            if it["fam"] == "Bernoulli":
                pp = np.broadcast_to(np.asarray(a["probs"], np.float64), np.shape(env[it["name"]]))
                cond += float(np.sum(1.0 / np.minimum(pp, 1 - pp)))
                min_p = min(min_p, float(np.min(np.minimum(pp, 1 - pp))))
            tot = float(terms.sum())
            at = float(np.abs(terms).sum())
            if it.get("transform"):
                lj = log_jac(bij_kind(it), env[it["name"]])
                tot += float(np.sum(lj))
                at += float(np.abs(lj).sum())
            lp += tot
            abs_terms += at
            if it["role"] in ("param", "both"):
                lpr += tot
            if it["role"] in ("obs", "both"):
                ll += tot
            if it["role"] not in ("param", "obs"):
                all_classified = False
        elif it["t"] == "freedist":
            a = {k: ref(v) for k, v in it["args"].items()}
            terms = np.asarray(logpdf(it["fam"], env[it["at"]], a), np.float64)
            lp += float(terms.sum())
            abs_terms += float(np.abs(terms).sum())
            all_classified = False
    return {"log_prob": lp, "log_lik": ll, "log_prior": lpr, "abs_terms": abs_terms, "all_classified": all_classified,
            "cond": cond, "min_p": min_p}
