"""Check runner.

./check CNN [--tier quick|thorough] [--seed N] [--workers N] [--replay FILE]

exit 0  held on everything explored, every deciding monitor reached
exit 1  violation not listed (open) in known_findings.json  -> VIOLATION line
exit 2  inconclusive (harness error / watchdog / monitor never reached)
"""

from __future__ import annotations

import argparse
import glob
import importlib
import json
import os
import shutil
import subprocess
import sys
import tempfile
import time

from .common import VERIF_ROOT, struct_hash, to_jsonable

LEVEL = "exploration"


def find_module(pid: str) -> str:
    pat = os.path.join(VERIF_ROOT, "checks", pid.lower() + "_*.py")
    hits = sorted(glob.glob(pat))
    if not hits:
        raise SystemExit(f"no check module for {pid}")
    return "checks." + os.path.basename(hits[0])[:-3]


def load_known(pid: str) -> dict[str, dict]:
    path = os.path.join(VERIF_ROOT, "known_findings.json")
    if not os.path.exists(path):
        return {}
    with open(path) as f:
        data = json.load(f)
    out = {}
    for e in data.get("findings", []):
        if e.get("property") == pid and e.get("status") == "open":
            out[e["key"]] = e
    return out


class Ctx:
    """Handed to a module's finalize(): merged results plus a way to run more cases."""

    def __init__(self, modname, mod, tier, seed, workers, tmpdir):
        self.modname = modname
        self.mod = mod
        self.tier = tier
        self.seed = seed
        self.workers = workers
        self.tmpdir = tmpdir
        self.results: list[dict] = []
        self.harness_errors: list[dict] = []
        self.inconclusive: list[str] = []
        self.reach: dict[str, int] = {}
        self.extra_violations: list[dict] = []
        self.extra_monitors: dict[str, int] = {}
        self.notes: dict = {}
        self._round = 0

    def run(self, cases: list[dict]) -> list[dict]:
        """Fan cases out to worker subprocesses; returns their result dicts."""
        if not cases:
            return []
        self._round += 1
        mod = self.mod
        threads = int(getattr(mod, "THREADS", 1))
        timeout = getattr(mod, "TIMEOUT", {"quick": 600, "thorough": 3600})[self.tier]
        groups: dict[bool, list[dict]] = {}
        for c in cases:
            groups.setdefault(bool(c.get("x64", False)), []).append(c)
        # shards: at most MAX_CASES_PER_PROC cases per worker process (JAX keeps every compiled function of a process
        # alive, so memory grows with the number of cases a process has seen), at most `workers` processes at a time
        maxc = int(getattr(mod, "MAX_CASES_PER_PROC", 40))
        jobs = []
        for x64, cs in groups.items():
            share = max(1, round(self.workers * len(cs) / len(cases)))
            n = max(share, -(-len(cs) // maxc))
            n = min(n, len(cs))
            cs = sorted(cs, key=lambda c: -float(c.get("cost", 1.0)))
            for i in range(n):
                jobs.append((x64, cs[i::n]))
        jobs.sort(key=lambda j: -sum(float(c.get("cost", 1.0)) for c in j[1]))
        env = dict(os.environ)
        env["XLA_FLAGS"] = (
            env.get("XLA_FLAGS", "")
            + f" --xla_cpu_multi_thread_eigen={'true' if threads > 1 else 'false'}"
            + f" intra_op_parallelism_threads={threads}"
        ).strip()
        for v in ("OMP_NUM_THREADS", "OPENBLAS_NUM_THREADS", "MKL_NUM_THREADS"):
            env[v] = str(threads)

        def start(j, x64, shard):
            base = os.path.join(self.tmpdir, f"r{self._round}_s{j}")
            with open(base + ".in.json", "w") as f:
                json.dump({"cases": shard, "x64": x64}, f)
            e = dict(env)
            if x64:
                e["JAX_ENABLE_X64"] = "1"
            else:
                e.pop("JAX_ENABLE_X64", None)
            log = open(base + ".log", "w")
            p = subprocess.Popen(
                [sys.executable, "-m", "vlib.worker", self.modname,
                 base + ".in.json", base + ".out.json"],
                stdout=log, stderr=subprocess.STDOUT, env=e, cwd=VERIF_ROOT,
            )
            return (p, base, shard, log)

        def collect(p, base, shard, log, timed_out):
            log.close()
            outp = base + ".out.json"
            if not os.path.exists(outp) and os.path.exists(outp + ".part"):
                outp = outp + ".part"
            data = None
            if os.path.exists(outp):
                try:
                    with open(outp) as f:
                        data = json.load(f)
                except Exception:  # noqa: BLE001
                    data = None
            if data is not None:
                new_results.extend(data["results"])
                self.harness_errors.extend(data["harness_errors"])
                for k, v in data.get("reach", {}).items():
                    self.reach[k] = self.reach.get(k, 0) + v
            if timed_out:
                self.inconclusive.append(
                    f"watchdog: shard of {len(shard)} cases exceeded {timeout}s"
                )
            elif data is None or not data.get("complete"):
                tail = ""
                try:
                    with open(base + ".log") as f:
                        tail = f.read()[-1500:]
                except Exception:  # noqa: BLE001
                    pass
                self.inconclusive.append(
                    f"worker died (rc={p.returncode}) on shard of {len(shard)}: {tail}"
                )
            for suffix in (".in.json", ".out.json", ".out.json.part"):
                try:
                    os.unlink(base + suffix)
                except OSError:
                    pass

        deadline = time.time() + timeout
        new_results: list[dict] = []
        pending = list(enumerate(jobs))
        running: list[tuple] = []
        while pending or running:
            while pending and len(running) < self.workers:
                j, (x64, shard) = pending.pop(0)
                running.append(start(j, x64, shard))
            still = []
            for item in running:
                if item[0].poll() is None:
                    still.append(item)
                else:
                    collect(*item, timed_out=False)
            running = still
            if time.time() > deadline:
                for item in running:
                    item[0].kill()
                    item[0].wait()
                    collect(*item, timed_out=True)
                running = []
                if pending:
                    self.inconclusive.append(f"watchdog: {len(pending)} shards never started within {timeout}s")
                    pending = []
                break
            if running:
                time.sleep(0.2)
        self.results.extend(new_results)
        return new_results

    def violation(self, mech, msg, witness=None, case=None):
        self.extra_violations.append(
            {"mech": mech, "msg": str(msg)[:2000], "witness": to_jsonable(witness),
             "case": case}
        )

    def mon(self, name, n=1):
        self.extra_monitors[name] = self.extra_monitors.get(name, 0) + int(n)


def run_check(pid: str, tier: str, seed: int, workers: int) -> int:
    t0 = time.time()
    modname = find_module(pid)
    mod = importlib.import_module(modname)
    workers = min(workers, int(getattr(mod, "WORKERS", 16)))
    tmpdir = tempfile.mkdtemp(prefix=f"verif-{pid}-")
    try:
        ctx = Ctx(modname, mod, tier, seed, workers, tmpdir)
        cases = mod.gen_cases(tier, seed)
        ctx.run(cases)
        if hasattr(mod, "finalize"):
            mod.finalize(ctx)
        return decide(pid, mod, ctx, tier, seed, t0)
    finally:
        shutil.rmtree(tmpdir, ignore_errors=True)


def decide(pid, mod, ctx: Ctx, tier, seed, t0) -> int:
    known = load_known(pid)
    monitors: dict[str, int] = dict(ctx.extra_monitors)
    events: dict[str, int] = {}
    skipped: dict[str, int] = {}
    nontriv: set[str] = set()
    samples = []
    violations = []
    evals = 0
    for r in ctx.results:
        evals += int(r.get("evals") or 1)
        for k, v in r.get("monitors", {}).items():
            monitors[k] = monitors.get(k, 0) + v
        for k, v in r.get("events", {}).items():
            events[k] = events.get(k, 0) + v
        for k, v in r.get("skipped", {}).items():
            skipped[k] = skipped.get(k, 0) + v
        nontriv.update(r.get("nontrivial", []))
        if r.get("sample") is not None and len(samples) < 4:
            samples.append(r["sample"])
        for v in r.get("violations", []):
            v = dict(v)
            v["case"] = r.get("case")
            violations.append(v)
    violations.extend(ctx.extra_violations)
    if not samples and ctx.results:
        samples.append(to_jsonable(ctx.results[0].get("case")))

    classify = getattr(mod, "classify", None)
    unknown, known_hit = [], {}
    for v in violations:
        key = v["mech"]
        if classify is not None:
            key = classify(v) or key
        fullkey = key if key.startswith(pid + ":") else f"{pid}:{key}"
        v["key"] = fullkey
        if fullkey in known:
            known_hit.setdefault(fullkey, []).append(v)
        else:
            unknown.append(v)

    required = list(getattr(mod, "REQUIRED", []))
    req_tier = getattr(mod, "REQUIRED_TIER", {}).get(tier, [])
    missing = [m for m in required + list(req_tier) if monitors.get(m, 0) == 0]
    anchors = list(getattr(mod, "ANCHORS", []))
    opt_anchors = set(getattr(mod, "ANCHORS_OPTIONAL", []))
    missing_anchors = [a for a in anchors if ctx.reach.get(a, 0) == 0 and a not in opt_anchors]

    inconclusive = list(ctx.inconclusive)
    for he in ctx.harness_errors[:3]:
        inconclusive.append("harness error: " + he["trace"][-800:])
    if missing:
        inconclusive.append(f"monitors never evaluated: {missing}")
    if missing_anchors:
        inconclusive.append(f"anchor functions never reached: {missing_anchors}")
    if evals == 0:
        inconclusive.append("no case executed")

    replay_paths = []
    if unknown:
        os.makedirs(os.path.join(VERIF_ROOT, "replays"), exist_ok=True)
        seen = set()
        for v in unknown:
            if v["key"] in seen and len(replay_paths) >= 5:
                continue
            seen.add(v["key"])
            h = struct_hash([v.get("case"), v["key"], v["msg"][:200]])
            rel = os.path.join("replays", f"{pid}-{h}.json")
            with open(os.path.join(VERIF_ROOT, rel), "w") as f:
                json.dump({"property": pid, "module": ctx.modname, "tier": tier,
                           "seed": seed, "case": v.get("case"), "violation": v},
                          f, indent=1, default=str)
            replay_paths.append((v, rel))
            if len(replay_paths) >= 20:
                break

    wall = time.time() - t0
    nd = len(nontriv)
    coverage = {
        "evaluations": int(evals),
        "distinct_nontrivial": int(nd),
        "rule": getattr(mod, "RULE", ""),
        "samples": samples[:4] if samples else [],
        "observed": {
            "monitor_evaluations": monitors,
            "events": events,
            "skipped": skipped,
            "reached_anchor_functions": ctx.reach,
        },
        "cases": len(ctx.results),
        "known_findings_hit": {k: len(v) for k, v in known_hit.items()},
        "unlisted_violations": [
            {"key": v["key"], "msg": v["msg"][:400]} for v in unknown[:10]
        ],
        "inconclusive": inconclusive,
        "notes": to_jsonable(ctx.notes),
    }
    if getattr(mod, "EXHAUSTIVE", None):
        coverage["exhaustive"] = bool(
            mod.EXHAUSTIVE if not callable(mod.EXHAUSTIVE) else mod.EXHAUSTIVE(tier)
        )
        coverage["exhaustive_scope"] = getattr(mod, "EXHAUSTIVE_SCOPE", "")
    evidence = {
        "property_id": pid,
        "tier": tier,
        "seed": int(seed),
        "level": LEVEL,
        "coverage": coverage,
        "assumptions": list(getattr(mod, "ASSUMPTIONS", [])),
        "wall_s": round(wall, 2),
        "violations": len(unknown),
    }
    evdir = os.environ.get("VERIF_EVIDENCE_DIR") or os.path.join(VERIF_ROOT, "evidence")
    os.makedirs(evdir, exist_ok=True)
    with open(os.path.join(evdir, f"{pid}.json"), "w") as f:
        json.dump(evidence, f, indent=1, default=str)

    # ---- report -------------------------------------------------------
    print(f"[{pid}] tier={tier} seed={seed} cases={len(ctx.results)} evaluations={evals} "
          f"distinct_nontrivial={nd} wall={wall:.1f}s")
    print(f"[{pid}] monitor evaluations: "
          + ", ".join(f"{k}={v}" for k, v in sorted(monitors.items())))
    if events:
        print(f"[{pid}] events: " + ", ".join(f"{k}={v}" for k, v in sorted(events.items())))
    if skipped:
        print(f"[{pid}] skipped: " + ", ".join(f"{k}={v}" for k, v in sorted(skipped.items())))
    if ctx.reach:
        print(f"[{pid}] reached: " + ", ".join(f"{k}={v}" for k, v in sorted(ctx.reach.items())))
    for key, vs in known_hit.items():
        print(f"KNOWN-FINDING: property={pid} {key} ({len(vs)} occurrences): "
              f"{known[key].get('what', '')[:240]}")
    if unknown:
        shown = set()
        for v, rel in replay_paths:
            if v["key"] in shown:
                continue
            shown.add(v["key"])
            first = v["msg"].splitlines()[0] if v["msg"] else ""
            print(f"[{pid}] violation {v['key']}: {first[:300]}")
            print(f"VIOLATION property={pid} replay={rel}")
        return 1
    if inconclusive:
        for why in inconclusive:
            print(f"INCONCLUSIVE property={pid} reason={why[:1500]}")
        return 2
    if nd < 2:
        print(f"INCONCLUSIVE property={pid} reason=fewer than 2 distinct non-trivial cases")
        return 2
    print(f"[{pid}] HELD on everything explored")
    return 0


def replay(path: str) -> int:
    with open(path) as f:
        rp = json.load(f)
    from .common import CaseResult

    mod = importlib.import_module(rp["module"])
    if rp["case"] is None:
        print("violation was raised in finalize(); re-run the check with the same seed:")
        print(f"  VERIF_SEED={rp['seed']} ./check {rp['property']} --tier {rp['tier']}")
        return 2
    if rp["case"].get("x64"):
        os.environ["JAX_ENABLE_X64"] = "1"
    r = mod.run_case(rp["case"])
    if isinstance(r, CaseResult):
        r = r.as_dict()
    if hasattr(mod, "stage2") and isinstance(r.get("extra"), dict):
        # distributional check: repeat the two-stage decision for this case
        import numpy as np

        from .stats import Z_FLAG

        flags = r["extra"].get("flags", {})
        print("stage-1 flags:", flags)
        if flags:
            r2 = mod.run_case(mod.stage2(rp["case"]))
            if isinstance(r2, CaseResult):
                r2 = r2.as_dict()
            for name, z1 in flags.items():
                z2 = (r2.get("extra") or {}).get("stats", {}).get(name)
                ok = z2 is not None and (not np.isfinite(z2) or abs(z2) > Z_FLAG) and np.sign(z2) == np.sign(z1)
                print(f"  {name}: z1={z1:.2f} z2={z2 if z2 is None else round(z2, 2)} confirmed={ok}")
                if ok:
                    r["violations"].append({"mech": r["extra"].get("mech", "distribution"), "msg": f"{name} confirmed"})
    print(json.dumps({"violations": r["violations"], "monitors": r["monitors"]},
                     indent=1, default=str)[:6000])
    if r["violations"]:
        print(f"VIOLATION property={rp['property']} replay={path}")
        return 1
    return 0


def selftest() -> int:
    """Setup step: nothing to build; verify that the code under test imports from the
    working tree and that the evidence/manifest files validate when jsonschema exists."""
    import liesel

    from .common import LIESEL_REPO

    where = os.path.realpath(os.path.dirname(liesel.__file__))
    print(f"liesel imported from {where}")
    if not where.startswith(LIESEL_REPO):
        print("liesel is not imported from $LIESEL_REPO")
        return 1
    import jax

    print("jax", jax.__version__, "devices", jax.devices())
    os.makedirs(os.path.join(VERIF_ROOT, "evidence"), exist_ok=True)
    return 0


def main(argv=None) -> int:
    ap = argparse.ArgumentParser()
    ap.add_argument("pid", nargs="?")
    ap.add_argument("--tier", default=os.environ.get("VERIF_TIER", "quick"),
                    choices=["quick", "thorough"])
    ap.add_argument("--seed", type=int, default=int(os.environ.get("VERIF_SEED", "0") or 0))
    ap.add_argument("--workers", type=int,
                    default=int(os.environ.get("VERIF_WORKERS", "0") or 0) or (os.cpu_count() or 4))
    ap.add_argument("--replay")
    ap.add_argument("--selftest", action="store_true")
    a = ap.parse_args(argv)
    if a.selftest:
        return selftest()
    if a.replay:
        return replay(a.replay)
    if not a.pid:
        ap.error("property id required")
    return run_check(a.pid.upper(), a.tier, a.seed, a.workers)


if __name__ == "__main__":
    sys.exit(main())
