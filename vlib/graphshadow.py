"""Graph evaluator + coherence monitor for *arbitrary* liesel models (not built from a gengraph spec).

The expected value of every node is recomputed recursively over the public read-only structure
(`node.inputs`, `node.kwinputs`, `Dist.at`, `Calc.function`, `Dist.distribution`, `Dist.per_obs`,
`Value.value`), ignoring every cache and flag.  A shadow dirtiness model (as in vlib/coherence.py, but
over the model's own edge list) predicts which nodes may be outdated.  Evaluation counts are not observable
here (the node functions belong to the model), so the count clause I4 is left to the gengraph-based monitor.
"""

from __future__ import annotations

import numpy as np


def leaves_close(a, b, rtol=2e-5, atol=2e-5):
    import jax

    la = jax.tree_util.tree_leaves(a)
    lb = jax.tree_util.tree_leaves(b)
    if len(la) != len(lb):
        return False
    for x, y in zip(la, lb):
        x = np.asarray(x)
        y = np.asarray(y)
        if x.shape != y.shape:
            return False
        if x.dtype.kind in "fc":
            if not np.allclose(x.astype(np.float64), y.astype(np.float64), rtol=rtol, atol=atol, equal_nan=True):
                return False
        elif not np.array_equal(x, y):
            return False
    return True


class GraphShadow:
    def __init__(self, model, res, tag=""):
        from liesel.model.nodes import Dist, TransientNode, Value

        self.m = model
        self.res = res
        self.tag = tag
        self.names = list(model.nodes)
        self.kind = {}
        for nm, n in model.nodes.items():
            if isinstance(n, Value):
                self.kind[nm] = "input"
            elif isinstance(n, TransientNode):
                self.kind[nm] = "transient"
            elif isinstance(n, Dist):
                self.kind[nm] = "dist"
            else:
                self.kind[nm] = "calc"
        self.parents = {nm: [p.name for p in n.all_input_nodes()] for nm, n in model.nodes.items()}
        self.children = {nm: [] for nm in self.names}
        for nm, ps in self.parents.items():
            for p in ps:
                self.children[p].append(nm)
        self._desc = {}
        self._anc = {}
        self.dirty: set[str] = set()
        self.auto = bool(model.auto_update)
        self.slots = {}
        self.hist = []
        self.inputs = {nm: model.nodes[nm].value for nm in self.names if self.kind[nm] == "input"}

    def desc(self, nm):
        if nm not in self._desc:
            out, st = set(), list(self.children[nm])
            while st:
                x = st.pop()
                if x not in out:
                    out.add(x)
                    st.extend(self.children[x])
            self._desc[nm] = out
        return self._desc[nm]

    def anc(self, nm):
        if nm not in self._anc:
            out, st = set(), list(self.parents[nm])
            while st:
                x = st.pop()
                if x not in out:
                    out.add(x)
                    st.extend(self.parents[x])
            self._anc[nm] = out
        return self._anc[nm]

    # ------------------------------------------------------------ oracle
    def evaluate(self):
        from liesel.model.nodes import Dist, InputGroup

        val = {}

        def ev(nm):
            if nm in val:
                return val[nm]
            n = self.m.nodes[nm]
            k = self.kind[nm]
            if k == "input":
                v = self.inputs[nm]
            elif isinstance(n, Dist):
                args = [ev(i.name) for i in n.inputs]
                kw = {kk: ev(i.name) for kk, i in n.kwinputs.items()}
                lp = n.distribution(*args, **kw).log_prob(ev(n.at.name))
                if not n.per_obs and hasattr(lp, "sum"):
                    lp = lp.sum()
                v = lp
            elif isinstance(n, InputGroup):
                from liesel.model.nodes import ArgGroup

                v = ArgGroup([ev(i.name) for i in n.inputs], {kk: ev(i.name) for kk, i in n.kwinputs.items()})
            else:
                args = [ev(i.name) for i in n.inputs]
                kw = {kk: ev(i.name) for kk, i in n.kwinputs.items()}
                v = n.function(*args, **kw)
            val[nm] = v
            return v

        for nm in self.names:
            ev(nm)
        return val

    def w(self):
        return {"tag": self.tag, "history": self.hist[-10:], "n_ops": len(self.hist)}

    def check(self, op):
        res = self.res
        val = self.evaluate()
        for nm in self.names:
            n = self.m.nodes[nm]
            if self.kind[nm] == "input":
                res.mon("G1_input_holds_assigned_value")
                if not leaves_close(n.value, self.inputs[nm], 0, 0):
                    res.violation("input-value", f"after {op}: input {nm} does not hold the assigned value", self.w())
                continue
            if n.outdated:
                continue
            res.mon("G1_uptodate_equals_fromscratch")
            try:
                ok = leaves_close(n.value, val[nm])
            except Exception:  # noqa: BLE001
                ok = False
            if not ok:
                res.violation("stale-cache" if self.kind[nm] != "transient" else "stale-transient",
                              f"after {op}: node {nm} [{type(n).__name__}] reports up to date but its value differs from the "
                              f"recomputation over the graph (shadow dirty: {nm in self.dirty})", self.w())
                return

    def all_uptodate(self, op):
        self.res.mon("G2_full_update_leaves_nothing_outdated")
        bad = [nm for nm, n in self.m.nodes.items() if n.outdated]
        if bad:
            self.res.violation("outdated-after-update", f"after {op}: nodes still outdated: {bad[:6]}", self.w())

    # ------------------------------------------------------------ operations
    def assign(self, nm, value, via_var=None):
        self.hist.append(["assign", via_var or nm, self.auto])
        if via_var is not None:
            self.m.vars[via_var].value = value
        else:
            self.m.nodes[nm].value = value
        self.inputs[nm] = value
        self.dirty |= {d for d in self.desc(nm) if self.kind[d] in ("calc", "dist")}
        op = f"assign {via_var or nm} (auto_update={self.auto})"
        if self.auto:
            self.dirty = set()
            self.all_uptodate(op)
        self.check(op)

    def set_auto(self, flag):
        self.hist.append(["auto_update", flag])
        self.m.auto_update = bool(flag)
        self.auto = bool(flag)

    def update(self, names=None):
        if not names:
            self.hist.append(["update"])
            self.m.update()
            self.dirty = set()
            self.all_uptodate("update()")
            self.check("update()")
            return
        self.hist.append(["update", list(names)])
        self.m.update(*names)
        closure = set(names)
        for nm in names:
            closure |= self.anc(nm)
        self.dirty -= closure
        self.res.mon("G3_targeted_update_closure_uptodate")
        bad = [nm for nm in closure if self.m.nodes[nm].outdated]
        if bad:
            self.res.violation("targeted-update-incomplete", f"after update({list(names)}): still outdated: {bad[:6]}", self.w())
        self.check(f"update({list(names)})")

    def save(self, slot):
        self.hist.append(["save", slot])
        self.slots[slot] = (self.m.state, dict(self.inputs), set(self.dirty))

    def restore(self, slot):
        if slot not in self.slots:
            return
        self.hist.append(["restore", slot])
        st, inp, dirty = self.slots[slot]
        self.m.state = st
        self.inputs = dict(inp)
        self.dirty = set(dirty)
        self.check("state restore")
