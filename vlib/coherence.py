"""Cache-coherence monitor for liesel models built from a gengraph.Program.

A shadow model of dirtiness runs in lock-step with the real model:
  dirty = caching nodes with an ancestor assigned since they were last computed.
After every public operation the invariants I1-I5 of DESIGN.md (C01) are evaluated.
"""

from __future__ import annotations

import numpy as np

from .gengraph import Program


def arr_equal_bits(a, b) -> bool:
    a = np.asarray(a)
    b = np.asarray(b)
    return a.shape == b.shape and a.dtype == b.dtype and a.tobytes() == b.tobytes()


class Shadow:
    def __init__(self, prog: Program, res, tag=""):
        self.p = prog
        self.res = res
        self.tag = tag
        self.model = prog.model
        self.dirty: set[int] = set()
        self.slots: dict[int, tuple] = {}
        self.auto = True
        self.hist: list = []
        self.saw_partial = False
        self.saw_restore_other_dirty = False
        # reuse: the caller keeps one NumPy buffer per input and refills it in place before handing it over again
        self.reuse = False
        self.buffers: dict[int, np.ndarray] = {}
        prog.reset_inputs()
        self.snap = dict(prog.counters)
        self.caching = [n.sid for n in prog.nodes if n.caching]
        self.counted = [n.sid for n in prog.nodes if n.kind in ("calc", "dist") and not n.role.startswith("_model")]

    # ------------------------------------------------------------ helpers
    def _evals(self):
        c = self.p.counters
        out = {sid: c.get(sid, 0) - self.snap.get(sid, 0) for sid in self.counted}
        self.snap = dict(c)
        return {k: v for k, v in out.items() if v}

    def w(self, extra=None):
        d = {"tag": self.tag, "history": self.hist[-12:], "n_ops": len(self.hist)}
        if extra:
            d.update(extra)
        return d

    def nm(self, sid):
        n = self.p.nodes[sid]
        return f"{n.obj.name}[{n.kind}]"

    def value_for(self, sid, code):
        base = self.p.initial_value(sid)
        if code == 0:
            return np.asarray(self.p.cur_inputs[sid], np.float32)
        return np.asarray(base + np.float32(code % 5 - 2) + np.float32((code // 5) % 2), np.float32)

    # ------------------------------------------------------------ invariants
    def check_values(self, op):
        """I1: every node that reports itself up to date equals the from-scratch value."""
        res = self.res
        p = self.p
        val = p.evaluate()
        for n in p.nodes:
            o = n.obj
            if n.kind in ("input", "seed"):
                res.mon("I1_input_holds_assigned_value")
                if not arr_equal_bits(np.asarray(o.value), np.asarray(p.cur_inputs[n.sid])):
                    res.violation("input-value", f"after {op}: input {self.nm(n.sid)} holds {np.asarray(o.value).tolist()} "
                                  f"but {np.asarray(p.cur_inputs[n.sid]).tolist()} was assigned/restored", self.w())
                if o.outdated:
                    res.violation("input-outdated", f"after {op}: value node {self.nm(n.sid)} reports outdated", self.w())
                continue
            if o.outdated:
                continue
            res.mon("I1_uptodate_equals_fromscratch")
            got = o.value
            exp = val[n.sid]
            ok = True
            if n.kind == "group":
                args = list(got.args) + list(got.kwargs.values())
                ok = len(args) == len(exp) and all(arr_equal_bits(np.asarray(a, np.float32), np.asarray(e, np.float32))
                                                   for a, e in zip(args, exp))
            elif n.kind in ("calc", "transient", "proxy"):
                ok = got is not None and arr_equal_bits(np.asarray(got), np.asarray(exp, np.float32))
            elif n.kind == "dist":
                ok = got is not None and np.shape(got) == np.shape(exp) and np.allclose(np.asarray(got), exp, rtol=1e-6, atol=1e-6)
            elif n.kind == "msum":
                ok = got is not None and np.allclose(np.asarray(got, np.float64), np.asarray(exp, np.float64), rtol=1e-5, atol=1e-4)
            if not ok:
                mech = "stale-cache" if n.caching else "stale-transient"
                res.violation(mech, f"after {op}: node {self.nm(n.sid)} reports up to date but holds "
                              f"{None if got is None else np.asarray(got).tolist() if n.kind != 'group' else got} ; from-scratch value is "
                              f"{np.asarray(exp).tolist() if n.kind != 'group' else exp} (shadow dirty: {n.sid in self.dirty})", self.w())
        return val

    def check_counts(self, op, allowed: set, zero: bool = False, multi: bool = False):
        """I4: evaluations <= 1 per caching node and only for nodes in `allowed`."""
        ev = self._evals()
        res = self.res
        res.mon("I4_evaluation_counts")
        for sid, k in ev.items():
            if zero:
                res.violation("evaluated-without-update", f"{op}: caching node {self.nm(sid)} was evaluated {k}x by an "
                              "operation that is not an update", self.w())
            elif sid not in allowed:
                res.violation("evaluated-clean-node", f"{op}: caching node {self.nm(sid)} evaluated although none of its "
                              "ancestors was assigned since it was last computed", self.w())
            elif k > 1 and not multi:
                res.violation("evaluated-twice", f"{op}: caching node {self.nm(sid)} evaluated {k} times in one update", self.w())
        self.res.ev("node_evaluations", sum(ev.values()))
        return ev

    def check_all_uptodate(self, op):
        self.res.mon("I2_full_update_leaves_nothing_outdated")
        bad = [nm for nm, nd in self.model.nodes.items() if nd.outdated]
        if bad:
            self.res.violation("outdated-after-update", f"after {op}: nodes still outdated: {bad[:6]}", self.w())

    # ------------------------------------------------------------ operations
    def assign(self, sid, how, code):
        p = self.p
        n = p.nodes[sid]
        v = self.value_for(sid, code)
        import jax.numpy as jnp

        before = set(self.dirty)
        op = f"assign {self.nm(sid)} via {how} (auto_update={self.auto})"
        self.hist.append(["assign", n.obj.name, how, v.tolist(), self.auto])
        given = jnp.asarray(v)
        if self.reuse:
            buf = self.buffers.get(sid)
            if buf is None or buf.shape != np.shape(v) or buf.dtype != np.asarray(given).dtype:
                buf = self.buffers[sid] = np.empty(np.shape(v), np.asarray(given).dtype)
            else:
                self.res.ev("assigned_same_buffer_object_refilled")
            buf[...] = np.asarray(given)
            given = buf
        if how == "var":
            p.var_objs[n.unit].value = given
        else:
            n.obj.value = given
        p.cur_inputs[sid] = v
        newly = {d for d in p.desc_of(sid) if p.nodes[d].caching}
        self.dirty |= newly
        if self.auto:
            self.check_counts(op, self.dirty)
            self.dirty = set()
            self.check_all_uptodate(op)
        else:
            self.check_counts(op, set(), zero=True)
        self.check_values(op)
        _ = before

    def poison(self, sid, how):
        """Assign a value on which a downstream node function raises (auto-update on): the assignment
        fails in the middle of the sweep.  Whatever the model does about it, every node that still reports
        itself up to date must hold the from-scratch value for the inputs the model now holds."""
        import jax.numpy as jnp

        from .gengraph import POISON

        p = self.p
        n = p.nodes[sid]
        self.model.auto_update = True
        self.auto = True
        v = np.full(np.shape(p.cur_inputs[sid]), POISON, np.float32)
        self.hist.append(["assign-poison", n.obj.name, how])
        raised = False
        try:
            if how == "var":
                p.var_objs[n.unit].value = jnp.asarray(v)
            else:
                n.obj.value = jnp.asarray(v)
        except Exception:  # noqa: BLE001
            raised = True
        self.res.ev("poison_assignments_raised" if raised else "poison_assignments_harmless")
        # resynchronise the shadow with what the model now holds / reports
        p.cur_inputs[sid] = np.asarray(n.obj.value, np.float32)
        self.dirty = {m.sid for m in p.nodes if m.caching and m.obj.outdated}
        self._evals()
        if raised:
            self.res.mon("I6_coherent_after_failed_update")
            self.check_values_partial("failed assignment (node function raised during the sweep)")
        # recover with a healthy value: a full sweep must now succeed and clean everything
        hv = self.value_for(sid, 3)
        if how == "var":
            p.var_objs[n.unit].value = jnp.asarray(hv)
        else:
            n.obj.value = jnp.asarray(hv)
        p.cur_inputs[sid] = hv
        self.hist.append(["assign", n.obj.name, how, hv.tolist(), True])
        self.dirty = set()
        self._evals()
        self.check_all_uptodate("assignment after a failed one")
        self.check_values("assignment after a failed one")

    def check_values_partial(self, op):
        """I1 restricted to nodes that do not depend on a poisoned input through a fragile function:
        simply every up-to-date node whose from-scratch value is computable."""
        from .gengraph import POISON

        p = self.p
        try:
            self.check_values(op)
        except ValueError:
            # the oracle itself cannot evaluate nodes downstream of the poison: judge the others
            val = {}
            for n in p.nodes:
                try:
                    val[n.sid] = p.evaluate_one(n.sid)
                except Exception:  # noqa: BLE001
                    val[n.sid] = None
            for n in p.nodes:
                if n.caching and val[n.sid] is None and not n.obj.outdated and n.kind not in ("input", "seed", "group"):
                    # its function (or one upstream) raises on the inputs the model now holds: it cannot have been
                    # recomputed, so it cannot be up to date
                    self.res.violation("stale-after-failed-update", f"after {op}: node {self.nm(n.sid)} reports up to date (value "
                                       f"{np.asarray(n.obj.value).tolist()}) although it cannot be evaluated on the inputs the model "
                                       "now holds (a node function raised during the sweep)", self.w())
                    return
                if n.kind in ("input", "seed", "group") or n.obj.outdated or val[n.sid] is None:
                    continue
                got = n.obj.value
                exp = val[n.sid]
                if n.kind in ("calc", "transient", "proxy"):
                    ok = got is not None and arr_equal_bits(np.asarray(got), np.asarray(exp, np.float32))
                else:
                    ok = got is not None and np.allclose(np.asarray(got, np.float64), np.asarray(exp, np.float64), rtol=1e-5, atol=1e-4)
                if not ok:
                    self.res.violation("stale-after-failed-update", f"after {op}: node {self.nm(n.sid)} reports up to date but holds "
                                       f"{np.asarray(got).tolist()} ; from-scratch value for the inputs the model now holds is "
                                       f"{np.asarray(exp).tolist()}", self.w())
                    return
        _ = POISON

    def set_auto(self, flag):
        self.hist.append(["auto_update", flag])
        self.model.auto_update = bool(flag)
        self.auto = bool(flag)
        self.check_counts(f"auto_update={flag}", set(), zero=True)
        self.check_values(f"auto_update={flag}")

    def update(self):
        self.hist.append(["update"])
        self.model.update()
        self.check_counts("update()", set(self.dirty))
        self.dirty = set()
        self.check_all_uptodate("update()")
        self.check_values("update()")

    def update_names(self, sids):
        p = self.p
        names = [p.nodes[s].obj.name for s in sids]
        self.hist.append(["update", names])
        closure = set(sids)
        for s in sids:
            closure |= p.anc_of(s)
        self.model.update(*names)
        op = f"update({names})"
        self.check_counts(op, self.dirty & closure)
        self.dirty -= closure
        self.res.mon("I3_targeted_update_closure_uptodate")
        bad = [self.nm(s) for s in closure if p.nodes[s].obj.outdated]
        if bad:
            self.res.violation("targeted-update-incomplete", f"after {op}: target/ancestor nodes still outdated: {bad[:6]}", self.w())
        if self.dirty:
            self.saw_partial = True
            self.res.ev("targeted_update_left_others_outdated")
        self.check_values(op)

    def save(self, slot):
        self.hist.append(["save", slot])
        # a saved state refers to the current value objects: the caller does not write into those buffers again
        self.buffers = {}
        st = self.model.state
        self.slots[slot] = (st, dict(self.p.cur_inputs), set(self.dirty))
        self.check_counts("state (save)", set(), zero=True)

    def restore(self, slot):
        if slot not in self.slots:
            return
        st, inp, dirty = self.slots[slot]
        self.hist.append(["restore", slot])
        if dirty != self.dirty:
            self.saw_restore_other_dirty = True
            self.res.ev("restore_under_other_dirty_set")
        self.model.state = st
        self.p.cur_inputs = dict(inp)
        self.dirty = set(dirty)
        self.check_counts("state (restore)", set(), zero=True)
        # I5: round trip
        self.res.mon("I5_state_roundtrip")
        now = self.model.state
        for k, ns in st.items():
            m = now.get(k)
            same = m is not None and bool(m.outdated) == bool(ns.outdated)
            if same:
                import jax

                la = jax.tree_util.tree_leaves(ns.value)
                lb = jax.tree_util.tree_leaves(m.value)
                same = len(la) == len(lb) and all(arr_equal_bits(x, y) for x, y in zip(la, lb))
            if not same:
                self.res.violation("state-roundtrip", f"after restore: node {k} state {m} != saved {ns}", self.w())
                break
        self.check_values("state (restore)")

    def read(self, what, sid=None):
        self.hist.append(["read", what])
        m = self.model
        if what == "log_prob":
            _ = m.log_prob, m.log_lik, m.log_prior
        elif what == "state":
            _ = m.state
        elif what == "values":
            for n in self.p.nodes:
                if n.kind != "group" and not n.obj.outdated:
                    _ = n.obj.value
            for v in m.vars.values():
                _ = v.value
                if not v.value_node.outdated:
                    _ = v.log_prob
        self.check_counts(f"read {what}", set(), zero=True)

    def set_seed(self, k):
        import jax

        seeds = [n for n in self.p.nodes if n.kind == "seed"]
        if not seeds:
            return
        self.hist.append(["set_seed", k])
        self.model.set_seed(jax.random.PRNGKey(k))
        for s in seeds:
            self.p.cur_inputs[s.sid] = np.asarray(s.obj.value)
            self.dirty |= {d for d in self.p.desc_of(s.sid) if self.p.nodes[d].caching}
        if self.auto:
            self.check_counts("set_seed", set(self.dirty), multi=True)
            self.dirty = set()
            self.check_all_uptodate("set_seed")
        else:
            self.check_counts("set_seed", set(), zero=True)
        self.check_values("set_seed")

    # ------------------------------------------------------------ driver
    def run_ops(self, ops):
        for op in ops:
            k = op[0]
            if k == "assign":
                self.assign(op[1], op[2], op[3])
            elif k == "auto":
                self.set_auto(op[1])
            elif k == "update":
                self.update()
            elif k == "update_names":
                self.update_names(op[1])
            elif k == "save":
                self.save(op[1])
            elif k == "restore":
                self.restore(op[1])
            elif k == "read":
                self.read(op[1])
            elif k == "set_seed":
                self.set_seed(op[1])
            elif k == "poison":
                self.poison(op[1], op[2])
            self.res.ev("ops")
            if len(self.res.violations) >= 3:
                break


def gen_ops(rng, prog: Program, n_ops: int):
    """Random operation history, biased towards the hostile pattern
    assign(auto off) -> targeted update of a sibling -> restore older state -> assign."""
    settable = [(sid, how) for sid, how, _ in prog.settable()]
    nodes = [n.sid for n in prog.nodes]
    has_seed = any(n.kind == "seed" for n in prog.nodes)
    has_fragile = any(u.get("fragile") for u in prog.units)
    ops = [["save", 0]]
    auto = True
    nslots = 1
    while len(ops) < n_ops:
        r = rng.random()
        if r < 0.12:
            # hostile pattern
            sid, how = settable[int(rng.integers(len(settable)))]
            ops.append(["auto", False])
            auto = False
            ops.append(["save", nslots % 4])
            nslots += 1
            ops.append(["assign", sid, how, int(rng.integers(1, 10))])
            k = int(rng.integers(1, 3))
            ops.append(["update_names", [int(x) for x in rng.choice(nodes, size=min(k, len(nodes)), replace=False)]])
            ops.append(["restore", int(rng.integers(0, min(nslots, 4)))])
            sid2, how2 = settable[int(rng.integers(len(settable)))]
            ops.append(["assign", sid2, how2, int(rng.integers(0, 10))])
        elif r < 0.20:
            # second hostile pattern: a state saved while nodes are outdated is restored right
            # after a full update, and updated again without any assignment in between
            sid, how = settable[int(rng.integers(len(settable)))]
            slot = nslots % 4
            nslots += 1
            ops.append(["auto", False])
            auto = False
            ops.append(["assign", sid, how, int(rng.integers(1, 10))])
            ops.append(["save", slot])
            ops.append(["update"])
            if rng.random() < 0.5:
                ops.append(["read", "values"])
            ops.append(["restore", slot])
            ops.append(["update"] if rng.random() < 0.6 else
                       ["update_names", [int(x) for x in rng.choice(nodes, size=min(2, len(nodes)), replace=False)]])
        elif r < 0.45:
            sid, how = settable[int(rng.integers(len(settable)))]
            ops.append(["assign", sid, how, int(rng.integers(0, 10))])
        elif r < 0.55:
            auto = not auto if rng.random() < 0.8 else auto
            ops.append(["auto", auto])
        elif r < 0.63:
            ops.append(["update"])
        elif r < 0.78:
            k = int(rng.integers(1, 4))
            ops.append(["update_names", [int(x) for x in rng.choice(nodes, size=min(k, len(nodes)), replace=False)]])
        elif r < 0.84:
            ops.append(["save", nslots % 4])
            nslots += 1
        elif r < 0.91:
            ops.append(["restore", int(rng.integers(0, min(nslots, 4)))])
        elif r < 0.96 and has_fragile:
            sid, how = settable[int(rng.integers(len(settable)))]
            ops.append(["poison", sid, how])
            auto = True
        elif r < 0.985 or not has_seed:
            ops.append(["read", str(rng.choice(["log_prob", "state", "values"]))])
        else:
            ops.append(["set_seed", int(rng.integers(0, 1000))])
    return ops
