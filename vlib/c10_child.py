"""Child process of C10's cross-process reproducibility case: the same configuration must give the
same results in processes that differ only in PYTHONHASHSEED (string hashing order)."""

import hashlib
import json
import sys


def main():
    import jax
    import jax.numpy as jnp
    import liesel.goose as gs
    import numpy as np

    from vlib.probes import mk_epochs

    cfg = json.loads(sys.argv[1])

    def lp(s):
        return -0.5 * (jnp.sum(s["alpha"] ** 2) + jnp.sum(s["zeta"] ** 2) + jnp.sum(s["mu"] ** 2) + jnp.sum(s["beta"] ** 2))

    def noisy(key, v):
        return v + jax.random.normal(key, jnp.shape(v), jnp.asarray(v).dtype)

    b = gs.EngineBuilder(seed=cfg["seed"], num_chains=cfg["chains"])
    b.show_progress = False
    b.set_model(gs.DictInterface(lp))
    b.set_initial_values({"alpha": jnp.zeros(()), "zeta": jnp.zeros(2), "mu": jnp.zeros(()), "beta": jnp.zeros(3)})
    for k in cfg["kernel_keys"]:
        b.add_kernel(gs.RWKernel([k], initial_step_size=0.7))
    b.set_jitter_fns({k: noisy for k in cfg["jitter_keys"]})
    b.set_epochs(mk_epochs(cfg["spec"]))
    eng = b.build()
    eng.sample_all_epochs()
    pos = eng.get_results().positions.combine_all().unwrap()
    h = hashlib.sha1()
    first = {}
    for k in sorted(pos):
        a = np.asarray(pos[k])
        h.update(a.tobytes())
        first[k] = a[:, 0].tolist()
    print("RESULT " + json.dumps({"sha1": h.hexdigest(), "first": first}))


if __name__ == "__main__":
    main()
