"""Random DAG programs over liesel's node kinds, with an independent spec evaluator.

The generator keeps its own description of every program (spec nodes, parents,
coefficients) and never consults liesel for the expected values.  Every liesel node is
a separate spec node: a variable's value node, its VarValue proxy and its distribution
node are three spec nodes.

All arithmetic nodes are affine with small integer coefficients on small-integer float32
inputs, so cached values can be compared bit-for-bit with the oracle.
"""

from __future__ import annotations

import numpy as np

KINDS_CACHING = ("calc", "dist", "msum")
POISON = 77.0   # a value on which "fragile" node functions raise (C01: failing update in the middle of a sweep)


class SNode:
    __slots__ = ("sid", "kind", "parents", "coef", "name", "unit", "role", "obj", "per_obs",
                 "scale", "needs_seed", "var", "group_parent", "flag")

    def __init__(self, sid, kind, parents=(), coef=(), name="", unit=None, role=""):
        self.sid = sid
        self.kind = kind            # input | calc | transient | proxy | group | dist | msum | seed
        self.parents = list(parents)
        self.coef = list(coef)      # [c0, c1, ...] for calc/transient
        self.name = name            # requested name ('' = unnamed)
        self.unit = unit
        self.role = role
        self.obj = None
        self.per_obs = True
        self.scale = 1.0
        self.needs_seed = False
        self.var = None
        self.group_parent = None
        self.flag = ""             # observed | parameter | '' for dist nodes' vars

    @property
    def caching(self):
        return self.kind in KINDS_CACHING


class Program:
    """A generated program.  `desc` is the JSON description it can be rebuilt from."""

    def __init__(self, desc):
        self.desc = desc
        self.shape = tuple(desc["shape"])
        self.nodes: list[SNode] = []
        self.units = desc["units"]
        self.counters: dict[int, int] = {}
        self.consumable: dict[int, tuple] = {}   # unit index -> (kind, sid of node that is wired)
        self.var_objs: dict[int, object] = {}
        self.model = None
        self._spec()

    # ------------------------------------------------------------------ spec
    def _new(self, kind, parents=(), coef=(), name="", unit=None, role=""):
        n = SNode(len(self.nodes), kind, parents, coef, name, unit, role)
        self.nodes.append(n)
        return n

    def _spec(self):
        """Expand units into spec nodes (pure bookkeeping, no liesel objects yet)."""
        self.unit_out: dict[int, int] = {}    # unit -> sid that consumers are wired to
        self.unit_nodes: dict[int, dict] = {}
        for ui, u in enumerate(self.units):
            k = u["kind"]
            nm = u.get("name", "")
            if k == "value":
                n = self._new("input", name=nm, unit=ui, role="value")
                self.unit_out[ui] = n.sid
                self.unit_nodes[ui] = {"value": n.sid}
            elif k in ("calc", "tcalc"):
                ps = [self.unit_out[p] for p in u["parents"]]
                n = self._new("calc" if k == "calc" else "transient", ps, u["coef"], nm, ui, role=k)
                n.needs_seed = bool(u.get("needs_seed"))
                self.unit_out[ui] = n.sid
                self.unit_nodes[ui] = {"value": n.sid}
            elif k == "group":
                ps = [self.unit_out[p] for p in u["parents"]]
                g = self._new("group", ps, [], nm, ui, role="group")
                self.unit_out[ui] = g.sid
                self.unit_nodes[ui] = {"value": g.sid}
            elif k in ("svar", "wvar"):
                if k == "svar":
                    v = self._new("input", name=(nm + "_value") if nm else "", unit=ui, role="var_value_node")
                else:
                    ps = [self.unit_out[p] for p in u["parents"]]
                    v = self._new("calc", ps, u["coef"], (nm + "_value") if nm else "", ui, role="var_value_node")
                px = self._new("proxy", [v.sid], [], (nm + "_var_value") if nm else "", ui, role="var_proxy")
                d = None
                if u.get("dist"):
                    dp = [self.unit_out[p] for p in u["dist"]["parents"]]
                    d = self._new("dist", dp + [px.sid], [], (nm + "_log_prob") if nm else "", ui, role="var_dist")
                    d.per_obs = bool(u["dist"]["per_obs"])
                    d.scale = float(u["dist"]["scale"])
                    d.flag = u["dist"].get("flag", "")
                    d.needs_seed = bool(u["dist"].get("needs_seed"))
                self.unit_out[ui] = px.sid
                self.unit_nodes[ui] = {"value": v.sid, "proxy": px.sid, "dist": d.sid if d else None}
            else:
                raise ValueError(k)

    # ------------------------------------------------------------------ graph relations
    def finalize_relations(self):
        n = len(self.nodes)
        self.children = [[] for _ in range(n)]
        for nd in self.nodes:
            for p in nd.parents:
                if nd.sid not in self.children[p]:
                    self.children[p].append(nd.sid)
        self._desc_cache = {}
        self._anc_cache = {}

    def desc_of(self, sid):
        if sid not in self._desc_cache:
            out = set()
            st = list(self.children[sid])
            while st:
                x = st.pop()
                if x not in out:
                    out.add(x)
                    st.extend(self.children[x])
            self._desc_cache[sid] = out
        return self._desc_cache[sid]

    def anc_of(self, sid):
        if sid not in self._anc_cache:
            out = set()
            st = list(self.nodes[sid].parents)
            while st:
                x = st.pop()
                if x not in out:
                    out.add(x)
                    st.extend(self.nodes[x].parents)
            self._anc_cache[sid] = out
        return self._anc_cache[sid]

    # ------------------------------------------------------------------ liesel objects
    def _fn(self, sid):
        import jax.numpy as jnp

        nd = self.nodes[sid]
        coef = [float(c) for c in nd.coef]
        counters = self.counters
        is_group = [self.nodes[p].kind == "group" for p in nd.parents]
        needs_seed = nd.needs_seed
        fragile = bool(self.units[nd.unit].get("fragile")) if nd.unit is not None else False

        def f(*xs, seed=None):
            counters[sid] = counters.get(sid, 0) + 1
            out = jnp.asarray(coef[0], jnp.float32)
            if fragile:
                for x in xs:
                    if not hasattr(x, "args") and float(np.max(np.asarray(x))) == POISON:
                        raise ValueError("fragile node function received the poison value")
            for c, x, g in zip(coef[1:], xs, is_group):
                if g:
                    tot = 0.0
                    for a in x.args:
                        tot = tot + a
                    for a in x.kwargs.values():
                        tot = tot + a
                    x = tot
                out = out + jnp.asarray(c, jnp.float32) * x
            if needs_seed and seed is not None:
                out = out + (jnp.asarray(seed)[-1] % 4).astype(jnp.float32)
            return out

        if not needs_seed:
            def g(*xs):
                return f(*xs)
            return g
        return f

    def _dist_ctor(self, sid):
        import tensorflow_probability.substrates.jax.distributions as tfd

        counters = self.counters
        scale = self.nodes[sid].scale

        def make(loc, seed=None):
            counters[sid] = counters.get(sid, 0) + 1
            return tfd.Normal(loc=loc, scale=scale)

        if not self.nodes[sid].needs_seed:
            def make2(loc):
                return make(loc)
            return make2
        return make

    def initial_value(self, sid, rng=None):
        base = (sid * 3) % 7 - 3
        if self.shape:
            v = base + np.arange(int(np.prod(self.shape))).reshape(self.shape) % 3
        else:
            v = base
        return np.asarray(v, np.float32)

    def make_objects(self):
        """Create fresh, un-built liesel nodes/vars for this program."""
        import jax.numpy as jnp
        import liesel.model as lsl

        objs: dict[int, object] = {}
        self.var_objs = {}
        wire = {}  # unit -> object to pass as an input (Node or Var)
        for ui, u in enumerate(self.units):
            k = u["kind"]
            un = self.unit_nodes[ui]
            ins = [wire[p] for p in u.get("parents", [])]
            if k == "value":
                sid = un["value"]
                o = lsl.Value(jnp.asarray(self.initial_value(sid)), _name=self.nodes[sid].name)
                objs[sid] = o
                wire[ui] = o
            elif k == "calc":
                sid = un["value"]
                o = lsl.Calc(self._fn(sid), *ins, _name=self.nodes[sid].name,
                             _needs_seed=self.nodes[sid].needs_seed)
                objs[sid] = o
                wire[ui] = o
            elif k == "tcalc":
                sid = un["value"]
                o = lsl.TransientCalc(self._fn(sid), *ins, _name=self.nodes[sid].name)
                objs[sid] = o
                wire[ui] = o
            elif k == "group":
                sid = un["value"]
                nkw = u.get("n_kw", 0)
                pos = ins[: len(ins) - nkw]
                kw = {f"kw{i}": x for i, x in enumerate(ins[len(ins) - nkw:])}
                o = lsl.InputGroup(*pos, _name=self.nodes[sid].name, **kw)
                objs[sid] = o
                wire[ui] = o
            else:
                vs = un["value"]
                if k == "svar":
                    val = jnp.asarray(self.initial_value(vs))
                else:
                    val = lsl.Calc(self._fn(vs), *ins)
                dist = None
                if u.get("dist"):
                    ds = un["dist"]
                    dins = [wire[p] for p in u["dist"]["parents"]]
                    dist = lsl.Dist(self._dist_ctor(ds), dins[0], _needs_seed=self.nodes[ds].needs_seed)
                    dist.per_obs = self.nodes[ds].per_obs
                var = lsl.Var(val, dist, name=u.get("name", ""))
                if u.get("dist"):
                    fl = u["dist"].get("flag", "")
                    if fl == "observed":
                        var.observed = True
                    elif fl == "parameter":
                        var.parameter = True
                objs[vs] = var.value_node
                objs[un["proxy"]] = var.var_value_node
                if dist is not None:
                    objs[un["dist"]] = dist
                self.var_objs[ui] = var
                wire[ui] = var
        self.wire = wire
        for sid, o in objs.items():
            self.nodes[sid].obj = o
        return wire

    def roots(self):
        """Units handed to the GraphBuilder: all units nobody consumes + the extra ones."""
        used = set()
        for u in self.units:
            used.update(u.get("parents", []))
            if u.get("dist"):
                used.update(u["dist"]["parents"])
        r = [ui for ui in range(len(self.units)) if ui not in used]
        for ui in self.desc.get("extra_roots", []):
            if ui not in r:
                r.append(ui)
        return r

    def build(self, copy=False, to_float32=True):
        import liesel.model as lsl

        # drop model-level spec nodes from an earlier build
        self.nodes = [n for n in self.nodes if n.kind not in ("msum", "seed") and not n.role.startswith("_model")]
        wire = self.make_objects()
        gb = lsl.GraphBuilder(to_float32=to_float32)
        for ui in self.roots():
            gb.add(wire[ui])
        ulp = self.desc.get("user_log_prob")
        if ulp is not None:
            gb.log_prob_node = wire[ulp]
        self.gb = gb
        model = gb.build_model(copy=copy)
        self.attach(model, copied=copy)
        return model

    def attach(self, model, copied=False, names=None):
        """Bind spec nodes to the nodes of `model` (by object, or by name for copies) and add
        the model-level spec nodes (seed inputs, _model_* sums)."""
        self.nodes = [n for n in self.nodes if n.kind not in ("msum", "seed") and not n.role.startswith("_model")]
        self.model = model
        if copied or names is not None:
            names = names or {n.sid: n.obj.name for n in self.nodes}
            for n in self.nodes:
                n.obj = model.nodes[names[n.sid]]
            for ui in list(self.var_objs):
                self.var_objs[ui] = self.nodes[self.unit_nodes[ui]["value"]].obj.var
        # seed inputs
        for n in list(self.nodes):
            if n.needs_seed:
                sname = f"_model_{n.obj.name}_seed"
                s = self._new("seed", name=sname, role="seed")
                s.obj = model.nodes[sname]
                n.parents = [p for p in n.parents if self.nodes[p].kind != "seed"] + [s.sid]
        dists = [n for n in self.nodes if n.kind == "dist"]
        ulp = self.desc.get("user_log_prob")
        for nm, sel in (("_model_log_lik", lambda d: d.flag == "observed"),
                        ("_model_log_prior", lambda d: d.flag == "parameter"),
                        ("_model_log_prob", lambda d: True)):
            if nm == "_model_log_prob" and ulp is not None:
                # user-supplied total: the model node forwards the user's node unchanged
                from liesel.model.nodes import TransientNode

                src = self.unit_nodes[ulp]["value"]
                obj = model.nodes[nm]
                if isinstance(obj, TransientNode):
                    m = self._new("proxy", [src], [], nm, role=nm)
                else:
                    m = self._new("calc", [src], [0.0, 1.0], nm, role=nm)
                m.obj = obj
                continue
            m = self._new("msum", [d.sid for d in dists if sel(d)], [], nm, role=nm)
            m.obj = model.nodes[nm]
        self.by_name = {n.obj.name: n for n in self.nodes}
        self.finalize_relations()
        return self

    def names(self):
        return {n.sid: n.obj.name for n in self.nodes if n.kind not in ("msum", "seed") and not n.role.startswith("_model")}

    # ------------------------------------------------------------------ oracle
    def inputs_now(self):
        """Current values of all input nodes, read from the spec's own record."""
        return dict(self.cur_inputs)

    def reset_inputs(self):
        self.cur_inputs = {}
        for n in self.nodes:
            if n.kind == "input":
                self.cur_inputs[n.sid] = self.initial_value(n.sid)
            elif n.kind == "seed":
                self.cur_inputs[n.sid] = np.asarray(n.obj.value)

    def _eval_node(self, n, val, inputs=None):
        import jax.numpy as jnp
        import tensorflow_probability.substrates.jax.distributions as tfd

        inputs = self.cur_inputs if inputs is None else inputs
        if n.kind in ("input", "seed"):
            return inputs[n.sid]
        if n.kind == "proxy":
            return val[n.parents[0]]
        if n.kind == "group":
            return [val[p] for p in n.parents]
        if n.kind in ("calc", "transient"):
            out = np.float32(n.coef[0])
            ps = [p for p in n.parents if self.nodes[p].kind != "seed"]
            if n.unit is not None and self.units[n.unit].get("fragile"):
                for p in ps:
                    if self.nodes[p].kind != "group" and float(np.max(np.asarray(val[p]))) == POISON:
                        raise ValueError("poison")
            for c, p in zip(n.coef[1:], ps):
                x = val[p]
                if self.nodes[p].kind == "group":
                    x = sum(np.asarray(a, np.float32) for a in x)
                out = out + np.float32(c) * np.asarray(x, np.float32)
            if n.needs_seed:
                sp = [p for p in n.parents if self.nodes[p].kind == "seed"][0]
                out = out + np.float32(int(np.asarray(val[sp])[-1]) % 4)
            return np.asarray(out, np.float32)
        if n.kind == "dist":
            ps = [p for p in n.parents if self.nodes[p].kind != "seed"]
            loc, at = val[ps[0]], val[ps[-1]]
            lp = tfd.Normal(loc=jnp.asarray(loc), scale=n.scale).log_prob(jnp.asarray(at))
            if not n.per_obs:
                lp = lp.sum()
            return np.asarray(lp)
        if n.kind == "msum":
            tot = np.float64(0.0)
            for p in n.parents:
                tot = tot + np.asarray(val[p], np.float64).sum()
            return np.asarray(tot, np.float32)
        raise ValueError(n.kind)

    def evaluate(self, inputs=None):
        """From-scratch values of every spec node (numpy float32 / exact)."""
        inputs = self.cur_inputs if inputs is None else inputs
        val: dict[int, object] = {}
        for n in self.nodes:
            if n.kind in ("input", "seed"):
                val[n.sid] = inputs[n.sid]
        for n in self.nodes:
            if n.kind in ("input", "seed"):
                continue
            val[n.sid] = self._eval_node(n, val, inputs)
        return val

    def evaluate_one(self, sid):
        """From-scratch value of one node; raises ValueError if a fragile function meets the poison."""
        cache = {}

        def ev(i):
            if i in cache:
                return cache[i]
            n = self.nodes[i]
            sub = {}
            for q in n.parents:
                sub[q] = ev(q)
            v = self._eval_node(n, sub)
            cache[i] = v
            return v
        return ev(sid)

    def settable(self):
        """(sid, how, obj) for every input that can be assigned through the public API."""
        out = []
        for n in self.nodes:
            if n.kind == "input":
                if n.role == "var_value_node":
                    out.append((n.sid, "var", self.var_objs[n.unit]))
                    out.append((n.sid, "node", n.obj))
                else:
                    out.append((n.sid, "node", n.obj))
        return out


# ---------------------------------------------------------------------------
# generation
# ---------------------------------------------------------------------------

def gen_program(rng, *, n_units=(3, 12), allow_seed=True, allow_unnamed=True, allow_group=True,
                p_dist=0.5, force_shape=None, p_user_lp=0.0, p_fragile=0.0) -> dict:
    n = int(rng.integers(n_units[0], n_units[1] + 1))
    shape = force_shape if force_shape is not None else ([] if rng.random() < 0.6 else [3])
    units = []
    consumable = []

    def pick_parents(kmax=3):
        k = int(rng.integers(1, min(kmax, len(consumable)) + 1))
        # bias towards recent units (depth) and shared inputs (diamonds)
        w = np.array([1.0 + 0.5 * i for i in range(len(consumable))])
        w = w / w.sum()
        return [int(x) for x in rng.choice(consumable, size=k, replace=False, p=w)]

    def coefs(k):
        return [int(rng.integers(-3, 4))] + [int(rng.choice([-1, 1, 1, 2])) for _ in range(k)]

    def name(ui, prefix):
        if allow_unnamed and rng.random() < 0.15:
            return ""
        return f"{prefix}{ui}"

    # at least two inputs first
    n_in = int(rng.integers(1, 4))
    for _ in range(n_in):
        ui = len(units)
        if rng.random() < 0.5:
            units.append({"kind": "value", "name": name(ui, "val")})
        else:
            units.append({"kind": "svar", "name": name(ui, "sv")})
        consumable.append(ui)
    while len(units) < n:
        ui = len(units)
        r = rng.random()
        if r < 0.12:
            units.append({"kind": "value", "name": name(ui, "val")})
        elif r < 0.27:
            units.append({"kind": "svar", "name": name(ui, "sv")})
        elif r < 0.55:
            ps = pick_parents()
            u = {"kind": "calc", "parents": ps, "coef": coefs(len(ps)), "name": name(ui, "c")}
            if allow_seed and rng.random() < 0.12 and u["name"]:
                u["needs_seed"] = True
            if p_fragile and rng.random() < p_fragile and not any(units[q]["kind"] == "group" for q in ps):
                u["fragile"] = True
            units.append(u)
        elif r < 0.68:
            ps = pick_parents()
            units.append({"kind": "tcalc", "parents": ps, "coef": coefs(len(ps)), "name": name(ui, "t")})
        elif r < 0.88 or not allow_group:
            ps = pick_parents()
            units.append({"kind": "wvar", "parents": ps, "coef": coefs(len(ps)), "name": name(ui, "wv")})
        else:
            ps = pick_parents(2)
            units.append({"kind": "group", "parents": ps, "name": name(ui, "g"),
                          "n_kw": int(rng.integers(0, len(ps) + 1))})
            consumable.append(ui)
            # a consumer of the group follows immediately
            ui2 = len(units)
            others = [c for c in consumable if c != ui and units[c]["kind"] != "group"]
            ps2 = [ui] + ([int(rng.choice(others))] if others and rng.random() < 0.5 else [])
            units.append({"kind": "calc", "parents": ps2, "coef": coefs(len(ps2)), "name": name(ui2, "c")})
            consumable.append(ui2)
            continue
        # groups may only be consumed by calc/tcalc/wvar functions (not by distributions)
        consumable.append(ui)
    # no unit other than calc-like may consume a group: fix parents of dist later
    # distributions on vars
    for ui, u in enumerate(units):
        if u["kind"] in ("svar", "wvar") and rng.random() < p_dist:
            cands = [c for c in range(ui) if units[c]["kind"] != "group"]
            if u["kind"] == "wvar":
                cands = [c for c in cands]
            if not cands:
                continue
            p = int(rng.choice(cands))
            u["dist"] = {"parents": [p], "scale": float(rng.choice([0.5, 1.0, 2.0])),
                         "per_obs": bool(rng.random() < 0.6),
                         "flag": str(rng.choice(["observed", "parameter", ""], p=[0.4, 0.4, 0.2]))}
            if allow_seed and rng.random() < 0.08 and u.get("name"):
                u["dist"]["needs_seed"] = True
    # group units must not be wired into other groups' kwargs in a way calc cannot handle: fine.
    # magnitude guard happens in the caller through evaluate().
    extra = [int(x) for x in rng.choice(len(units), size=int(rng.integers(0, 3)), replace=False)] if len(units) > 2 else []
    out = {"shape": shape, "units": units, "extra_roots": extra}
    calcs = [ui for ui, u in enumerate(units) if u["kind"] == "calc" and not u.get("needs_seed")]
    if p_user_lp and not shape and calcs and rng.random() < p_user_lp:
        out["user_log_prob"] = int(rng.choice(calcs))
    return out


def sane(desc) -> bool:
    """Group units are consumed by calc-like units only; values stay exactly representable."""
    units = desc["units"]
    for u in units:
        if u["kind"] == "group":
            if any(units[p]["kind"] == "group" for p in u["parents"]):
                return False
        if u.get("dist") and any(units[p]["kind"] == "group" for p in u["dist"]["parents"]):
            return False
    return True
