"""Probe objects handed to the real Goose engine through its public extension points.

ProbeKernel implements the Kernel protocol (via the real TransitionMixin/TuningMixin):
  * every call appends a record to a fixed-size log array *inside the kernel state*
    (so it survives jit/vmap/scan) and returns the same record in its info object;
  * transitions write a deterministic value that encodes (time, kernel index, what the
    preceding kernel wrote in the same iteration);
  * error codes come from a prescribed table indexed by (chain, global time).
"""

from __future__ import annotations

from dataclasses import dataclass

import jax
import jax.numpy as jnp
import numpy as np
from liesel.goose.epoch import EpochConfig, EpochState, EpochType
from liesel.goose.kernel import (
    DefaultTransitionInfo,
    ModelMixin,
    TransitionMixin,
    TransitionOutcome,
    TuningMixin,
    TuningOutcome,
    WarmupOutcome,
)
from liesel.goose.pytree import register_dataclass_as_pytree

KINDS = {
    "init": 0,
    "start": 1,
    "adaptive": 2,
    "standard": 3,
    "end": 4,
    "tune_fast": 5,
    "tune_slow": 6,
    "end_warmup": 7,
}
KIND_NAMES = {v: k for k, v in KINDS.items()}
# record fields
F_KIND, F_SEQ, F_NTH, F_TYPE, F_TIME, F_TIE, F_DUR, F_THIN, F_K0, F_K1, F_X1, F_X2 = range(12)
NF = 12

MOD = 997


@register_dataclass_as_pytree
@dataclass
class ProbeInfo:
    error_code: int
    acceptance_prob: float
    position_moved: int
    rec: jnp.ndarray

    def minimize(self) -> DefaultTransitionInfo:
        return DefaultTransitionInfo(
            self.error_code, self.acceptance_prob, self.position_moved
        )


@register_dataclass_as_pytree
@dataclass
class ProbeTuningInfo:
    error_code: int
    time: int
    rec: jnp.ndarray
    hist: jnp.ndarray  # [len, weighted checksum]


def _i32(x):
    return jnp.asarray(x).astype(jnp.int32)


def hist_checksum_np(history: dict) -> tuple[int, float]:
    """numpy reference of the in-kernel history checksum (exact for small ints)."""
    if history is None:
        return -1, 0.0
    tot = 0.0
    n = -1
    for k in sorted(history):
        a = np.asarray(history[k], dtype=np.float64)
        n = a.shape[0]
        w = np.arange(1, n + 1, dtype=np.float64).reshape((n,) + (1,) * (a.ndim - 1))
        tot += float((a * w).sum())
    return n, tot


def det_next(time: int, kidx: int, prev: int) -> int:
    """The value rule of the deterministic probe kernel (pure-Python twin)."""
    return (time * 7 + kidx * 3 + prev * 5 + 1) % MOD


class ProbeKernel(ModelMixin, TransitionMixin, TuningMixin):
    error_book = {0: "no errors", 1: "probe error one", 2: "probe error two",
                  3: "probe error three", -1: "probe: transition skipped"}
    needs_history = False
    identifier = ""

    def __init__(self, position_keys, kidx: int, log_len: int, prev_key: str | None = None,
                 needs_history: bool = False, err_table=None, chain_key: str = "chain",
                 write: bool = True, identifier: str = "", warmup_error: int = 0):
        self.warmup_error = int(warmup_error)     # the (documented) error code end_warmup reports
        self.position_keys = tuple(position_keys)
        self._model = None
        self.kidx = int(kidx)
        self.log_len = int(log_len)
        self.prev_key = prev_key
        self.needs_history = bool(needs_history)
        self.err_table = None if err_table is None else jnp.asarray(err_table, jnp.int32)
        self.chain_key = chain_key
        self.write = write
        self.identifier = identifier
        self.host_log: list = []

    # -- helpers -------------------------------------------------------
    def _host(self, kind, epoch):
        try:
            rec = (kind, int(epoch.nth_epoch), int(epoch.config.type), int(epoch.time),
                   int(epoch.time_in_epoch), int(epoch.config.duration))
        except Exception:  # noqa: BLE001  (tracer: called under jit)
            rec = (kind, None)
        self.host_log.append(rec)

    def _rec(self, ks, kind, epoch, key, x1=0, x2=0):
        key = jnp.asarray(key)
        if key.dtype != jnp.uint32:  # new-style typed keys
            key = jax.random.key_data(key)
        if epoch is None:
            ef = [-1, -1, -1, -1, -1, -1]
        else:
            ef = [epoch.nth_epoch, epoch.config.type, epoch.time, epoch.time_in_epoch,
                  epoch.config.duration, epoch.config.thinning]
        fields = [KINDS[kind], ks["seq"], *ef, key[0], key[1], x1, x2]
        rec = jnp.stack([_i32(f) for f in fields])
        ilog = ks["ilog"].at[ks["seq"]].set(rec, mode="drop")
        new = dict(ks)
        new["ilog"] = ilog
        new["seq"] = ks["seq"] + 1
        return new, rec

    # -- protocol ------------------------------------------------------
    def init_state(self, prng_key, model_state):
        self.host_log.append(("init", None))
        ks = {"ilog": jnp.full((self.log_len, NF), -7, jnp.int32),
              "seq": jnp.asarray(0, jnp.int32)}
        ks, _ = self._rec(ks, "init", None, prng_key)
        return ks

    def start_epoch(self, prng_key, kernel_state, model_state, epoch):
        self._host("start", epoch)
        ks, _ = self._rec(kernel_state, "start", epoch, prng_key)
        return ks

    def end_epoch(self, prng_key, kernel_state, model_state, epoch):
        self._host("end", epoch)
        ks, _ = self._rec(kernel_state, "end", epoch, prng_key)
        return ks

    def _transition(self, kind, prng_key, kernel_state, model_state, epoch):
        ks, rec = self._rec(kernel_state, kind, epoch, prng_key)
        code = jnp.asarray(0, jnp.int32)
        if self.err_table is not None:
            chain = _i32(self.model.extract_position([self.chain_key], model_state)[self.chain_key])
            t = jnp.clip(_i32(epoch.time), 0, self.err_table.shape[1] - 1)
            code = self.err_table[chain, t]
        if self.write:
            if self.prev_key is None:
                prev = jnp.asarray(0, jnp.int32)
            else:
                prev = _i32(jnp.ravel(
                    self.model.extract_position([self.prev_key], model_state)[self.prev_key])[0])
            v = (_i32(epoch.time) * 7 + self.kidx * 3 + prev * 5 + 1) % MOD
            pos = {}
            cur = self.model.extract_position(self.position_keys, model_state)
            for j, k in enumerate(self.position_keys):
                old = cur[k]
                new = (v + j + jnp.arange(old.size, dtype=jnp.int32).reshape(old.shape))
                pos[k] = new.astype(old.dtype)
            model_state = self.model.update_state(pos, model_state)
        info = ProbeInfo(code, jnp.asarray(0.5, jnp.float32), jnp.asarray(1, jnp.int32), rec)
        return TransitionOutcome(info, ks, model_state)

    def _standard_transition(self, prng_key, kernel_state, model_state, epoch):
        return self._transition("standard", prng_key, kernel_state, model_state, epoch)

    def _adaptive_transition(self, prng_key, kernel_state, model_state, epoch):
        return self._transition("adaptive", prng_key, kernel_state, model_state, epoch)

    def _tune(self, kind, prng_key, kernel_state, model_state, epoch, history):
        if history is None:
            n, cs = -1, jnp.asarray(0.0, jnp.float32)
        else:
            cs = jnp.asarray(0.0, jnp.float32)
            n = -1
            for k in sorted(history):
                a = jnp.asarray(history[k]).astype(jnp.float32)
                n = a.shape[0]
                w = jnp.arange(1, n + 1, dtype=jnp.float32).reshape((n,) + (1,) * (a.ndim - 1))
                cs = cs + jnp.sum(a * w)
        ks, rec = self._rec(kernel_state, kind, epoch, prng_key, x1=n)
        hist = jnp.stack([jnp.asarray(float(n), jnp.float32), cs])
        info = ProbeTuningInfo(jnp.asarray(0, jnp.int32), _i32(epoch.time), rec, hist)
        return TuningOutcome(info, ks)

    def tune(self, prng_key, kernel_state, model_state, epoch, history):
        self._host("tune", epoch)
        return TuningMixin.tune(self, prng_key, kernel_state, model_state, epoch, history)

    def _tune_fast(self, prng_key, kernel_state, model_state, epoch, history):
        return self._tune("tune_fast", prng_key, kernel_state, model_state, epoch, history)

    def _tune_slow(self, prng_key, kernel_state, model_state, epoch, history):
        return self._tune("tune_slow", prng_key, kernel_state, model_state, epoch, history)

    def end_warmup(self, prng_key, kernel_state, model_state, tuning_history):
        self.host_log.append(("end_warmup", None))
        if tuning_history is None:
            n = -1
        else:
            n = jax.tree_util.tree_leaves(tuning_history)[0].shape[0]
        ks, _ = self._rec(kernel_state, "end_warmup", None, prng_key, x1=n)
        return WarmupOutcome(jnp.asarray(self.warmup_error, jnp.int32), ks)


class ProbeKernelB(ProbeKernel):
    """Same behaviour, different class and different documented messages (so that a message taken
    from another kernel's error book is visible)."""

    error_book = {0: "no errors", 1: "B: first problem", 2: "B: second problem", 3: "B: third problem",
                  -1: "B: skipped"}


def decode_log(ilog: np.ndarray, seq: int) -> list[dict]:
    """Turn one chain's log array into a list of event dicts ordered by seq."""
    out = []
    ilog = np.asarray(ilog)
    for i in range(min(int(seq), ilog.shape[0])):
        r = ilog[i]
        out.append({
            "kind": KIND_NAMES.get(int(r[F_KIND]), f"?{int(r[F_KIND])}"),
            "seq": int(r[F_SEQ]), "nth": int(r[F_NTH]), "type": int(r[F_TYPE]),
            "time": int(r[F_TIME]), "tie": int(r[F_TIE]), "dur": int(r[F_DUR]),
            "thin": int(r[F_THIN]), "key": (int(r[F_K0]), int(r[F_K1])),
            "x1": int(r[F_X1]), "x2": int(r[F_X2]),
        })
    return out


# ---------------------------------------------------------------------------
# schedules
# ---------------------------------------------------------------------------

TYPE_NAMES = {0: "INIT", 1: "FAST", 2: "SLOW", 3: "BURNIN", 4: "POSTERIOR"}


def mk_epochs(spec, share=False) -> list[EpochConfig]:
    """spec: list of [type:int, duration, thinning] (without the initial epoch).
    share: consecutive equal entries are the *same* EpochConfig object (as in `[cfg] * 3` or repeated
    `append_epoch(cfg)`)."""
    out = [EpochConfig(EpochType.INITIAL_VALUES, 1, 1, None)]
    prev = None
    for t, d, k in spec:
        if share and prev is not None and prev[0] == (int(t), int(d), int(k)):
            out.append(prev[1])
            continue
        cfg = EpochConfig(EpochType(int(t)), int(d), int(k), None)
        prev = ((int(t), int(d), int(k)), cfg)
        out.append(cfg)
    return out


def gen_schedule(rng: np.random.Generator, max_epochs=6, max_dur=12, allow_thin=True,
                 chunkable=True):
    """Random valid schedule (list of [type, dur, thin]) after the initial epoch.

    Includes schedules without warm-up, without posterior, with several posterior
    epochs; durations are multiples of a random base so that chunk sizes < duration
    exist."""
    n = int(rng.integers(1, max_epochs + 1))
    style = rng.random()
    n_post = 0
    if style < 0.15:
        n_post = 0
    elif style < 0.3:
        n_post = n
    else:
        n_post = int(rng.integers(1, min(3, n) + 1))
    n_warm = n - n_post
    base = int(rng.choice([1, 2, 3, 4])) if chunkable else 1
    spec = []
    for i in range(n):
        if i < n_warm:
            t = int(rng.choice([1, 2, 3], p=[0.4, 0.35, 0.25]))
        else:
            t = 4
        mult = int(rng.integers(1, max(1, max_dur // base) + 1))
        d = base * mult
        k = 1
        if allow_thin and rng.random() < 0.5:
            if t == 4:
                divs = [x for x in range(1, d + 1) if d % x == 0]
                k = int(rng.choice(divs))
            else:
                k = int(rng.integers(1, d + 1))
        spec.append([t, d, k])
    if rng.random() < 0.3 and len(spec) < max_epochs + 1:
        # an epoch repeated with exactly the same configuration right after itself
        j = int(rng.integers(len(spec)))
        spec.insert(j, list(spec[j]))
    return spec


def divisors(n: int) -> list[int]:
    return [x for x in range(1, n + 1) if n % x == 0]


def total_time(spec) -> int:
    return 1 + sum(d for _, d, _ in spec)


@register_dataclass_as_pytree
@dataclass
class ProbeQuantity:
    error_code: int
    v: jnp.ndarray
    t: jnp.ndarray


class ProbeQG:
    """Quantity generator: reports the sum of one tracked key and the epoch time."""

    error_book = {0: "no errors"}

    def __init__(self, key: str, identifier: str = "qg0"):
        self.key = key
        self.identifier = identifier
        self._model = None

    def set_model(self, model):
        self._model = model

    def has_model(self):
        return self._model is not None

    def generate(self, prng_key, model_state, epoch):
        x = self._model.extract_position([self.key], model_state)[self.key]
        return ProbeQuantity(jnp.asarray(0, jnp.int32), jnp.sum(jnp.asarray(x).astype(jnp.float32)),
                             _i32(epoch.time))
