"""C14 — transforming a variable preserves the model (change of variables)."""

from __future__ import annotations

import warnings

import numpy as np

from vlib.common import CaseResult, exc_mech, off, rng_for

ID = "C14"
RULE = (
    "distribution/bijector pairs {Gamma, InverseGamma, HalfNormal, HalfCauchy, Exponential, LogNormal} x "
    "{Exp, Softplus, default}, {Beta, Uniform} x {Sigmoid, default}, Normal x {Identity, Scale(scale=.), "
    "Shift(shift=.) with constant and variable-valued arguments}; scalar and vector variables; parameters "
    "constants or other variables; entry points Var.transform(instance | class+args | None), auto_transform "
    "at build (variable added directly or only reached as an input of the added root), deprecated GraphBuilder.transform; "
    "invalid transform calls first (must leave the variable unchanged); 20 random points t per case (parameters re-assigned "
    "too); the identities re-checked inside deep copies / copy_nodes_and_vars rebuilds after values changed in the copy. "
    "Oracle: untouched TFP distribution, independent bijector instance, Jacobian by autodiff. "
    "Also: integer-valued / untyped initial values (where the TFP bijector accepts them); a second change of variables on the new variable; per_obs True/False carried over. Round 5: weak parameter variables with stale caches through GraphBuilder.transform; default (Identity) bijector / auto_transform on R. non-trivial = non-identity bijector and a point with |log-Jacobian| > 0.05; distinct by case hash"
)
REQUIRED = ["identities_hold_in_a_copy", "unchanged_after_failed_transform", "original_value_unchanged", "original_is_bijector_image", "density_change_of_variables",
            "parameter_flag_moved", "original_has_no_distribution", "entry_var_transform_instance",
            "entry_var_transform_class", "entry_var_transform_default", "entry_auto_transform",
            "entry_graphbuilder_transform"]
ANCHORS = ["model/nodes.py:Var.transform", "model/nodes.py:_transform_var_with_bijector_instance",
           "model/nodes.py:_transform_var_with_bijector_class", "model/model.py:GraphBuilder.transform",
           "model/model.py:GraphBuilder.build_model"]
ASSUMPTIONS = ["TFP distributions, bijectors and default event-space bijectors are trusted",
               "float32 tolerance 5e-5*(1+|terms|), x64 1e-9"]
WORKERS = 16
TIMEOUT = {"quick": 1500, "thorough": 10800}

POS = ["Gamma", "InverseGamma", "HalfNormal", "HalfCauchy", "Exponential", "LogNormal"]
UNIT = ["Beta", "Uniform"]


def dist_args(rng, fam):
    u = lambda lo, hi: float(np.round(np.exp(rng.uniform(np.log(lo), np.log(hi))), 3))  # noqa: E731
    return {
        "Gamma": {"concentration": u(0.5, 4), "rate": u(0.3, 3)},
        "InverseGamma": {"concentration": u(1.0, 4), "scale": u(0.3, 3)},
        "HalfNormal": {"scale": u(0.5, 4)},
        "HalfCauchy": {"loc": 0.0, "scale": u(0.5, 4)},
        "Exponential": {"rate": u(0.3, 3)},
        "LogNormal": {"loc": float(rng.integers(-1, 2)), "scale": u(0.3, 1.5)},
        "Beta": {"concentration1": u(0.8, 4), "concentration0": u(0.8, 4)},
        "Uniform": {"low": float(rng.choice([0.0, -1.0])), "high": float(np.round(rng.uniform(1.0, 3.0), 2))},
        "Normal": {"loc": float(rng.integers(-2, 3)), "scale": u(0.5, 3)},
    }[fam]


def gen_case(rng, idx, seed):
    grp = str(rng.choice(["pos", "pos", "unit", "real"]))
    if grp == "pos":
        fam = str(rng.choice(POS))
        bij = str(rng.choice(["Exp", "Softplus", "default"]))
    elif grp == "unit":
        fam = str(rng.choice(UNIT))
        bij = str(rng.choice(["Sigmoid", "default"]))
    else:
        fam = "Normal"
        bij = str(rng.choice(["Identity", "Scale", "Shift", "default"]))     # default: Identity for a variable on R
    if bij == "default":
        entry = str(rng.choice(["var_default", "auto", "gb_default"]))
    elif bij in ("Scale", "Shift"):
        entry = str(rng.choice(["var_class", "gb_class"]))
    else:
        entry = str(rng.choice(["var_instance", "gb_instance", "var_instance", "gb_class_noargs"]))
    args = dist_args(rng, fam)
    arg_is_var = {k: bool(rng.random() < 0.4) for k in args if not (fam == "HalfCauchy" and k == "loc")}
    if fam == "Uniform":
        if bij == "Sigmoid":
            # the plain Sigmoid maps onto (0,1): only admissible for Uniform(0,1)
            args = {"low": 0.0, "high": 1.0}
            arg_is_var = {}
        else:
            arg_is_var["high"] = bool(rng.random() < 0.6)
    return {"idx": idx, "seed": seed, "fam": fam, "bij": bij, "entry": entry, "args": args, "arg_is_var": arg_is_var,
            "shape": [] if rng.random() < 0.6 else [3], "parameter": bool(rng.random() < 0.7),
            "bij_arg": float(np.round(rng.uniform(0.5, 3.0), 2)), "bij_arg_is_var": bool(rng.random() < 0.5),
            "x64": bool(idx % 4 == 0), "failed_first": str(rng.choice(["none", "none", "instance_with_args", "class_without_args", "bad_kwarg"])),
            "via_root": bool(rng.random() < 0.5), "copy_phase": bool(rng.random() < 0.5),
            # the initial value as the user wrote it: a float array, a Python float / list, or integer-valued (10, np.array([3, 10]))
            "init": str(rng.choice(["array", "array", "pyfloat", "int"])) if grp != "unit" else str(rng.choice(["array", "pyfloat"])),
            # a second change of variables applied to the new variable (x = b1(b2(z)))
            # (only after Var.transform: the deprecated GraphBuilder.transform has already collected the nodes of the variable)
            "chain2": str(rng.choice(["none", "none", "instance", "class"])) if entry.startswith("var_") else "none",
            "chain2_scale": float(rng.choice([0.5, 2.0, 3.0])),
            # whether the log-density is stored per observation or summed
            "per_obs": bool(rng.random() < 0.6),
            "weak_params": bool(rng.random() < 0.35)}


def support_value(rng, fam, shape, args=None):
    if fam in POS:
        return np.round(np.exp(rng.normal(0, 0.7, size=shape)), 3)
    if fam == "Uniform":
        lo, hi = args["low"], args["high"]
        return np.round(lo + (hi - lo) * rng.uniform(0.15, 0.85, size=shape), 3)
    if fam in UNIT:
        return np.round(rng.uniform(0.1, 0.9, size=shape), 3)
    return np.round(rng.normal(0, 1.5, size=shape), 3)


def run_case(case):
    import jax
    import jax.numpy as jnp
    import liesel.model as lsl
    import tensorflow_probability.substrates.jax.bijectors as tfb
    import tensorflow_probability.substrates.jax.distributions as tfd

    res = CaseResult(case)
    res.evals = 1
    rng = rng_for(case["seed"], "c14", case["idx"])
    x64 = case["x64"]
    ft = jnp.float64 if x64 else jnp.float32
    fam, bij, entry = case["fam"], case["bij"], case["entry"]
    shape = tuple(case["shape"])
    w = dict(case)
    tolf = (lambda *terms: 1e-9 * (1 + sum(abs(float(np.max(np.abs(t)))) for t in terms))) if x64 else \
        (lambda *terms: 5e-5 * (1 + sum(abs(float(np.max(np.abs(t)))) for t in terms)))
    try:
        # ---- build the variable
        pvars = {}
        pbase = {}
        dargs = {}
        for k, v in case["args"].items():
            if case["arg_is_var"].get(k):
                if case.get("weak_params"):
                    # the parameter is a weak variable (a calculation of another variable) whose input was re-assigned
                    # while it belonged to no model and without an update: its cached value is stale at transform time
                    pbase[k] = lsl.Var(jnp.asarray(v * 0.5, ft), name=f"pb_{k}")
                    pvars[k] = lsl.Var(lsl.Calc(lambda b_: b_ * 1.0, pbase[k]), name=f"p_{k}").update()
                    pbase[k].value = jnp.asarray(v, ft)
                    if not entry.startswith("gb_"):
                        # Var.transform works on the cached values (outside a model nothing refreshes them): the user
                        # updates first. Only the deprecated GraphBuilder.transform refreshes the inputs itself.
                        pvars[k].update()
                else:
                    pvars[k] = lsl.Var(jnp.asarray(v, ft), name=f"p_{k}")
                    pbase[k] = pvars[k]
                dargs[k] = pvars[k]
            else:
                dargs[k] = jnp.asarray(v, ft)
        Dist = getattr(tfd, fam)
        v0 = support_value(rng, fam, shape, case["args"])
        init = case.get("init", "array")
        if init == "int":
            v0 = np.asarray(rng.integers(1, 12, size=shape) if fam in POS else rng.integers(-3, 4, size=shape))
            if fam == "Uniform":
                init = "array"
                v0 = support_value(rng, fam, shape, case["args"])
        if init in ("pyfloat", "int") and x64:
            # TFP converts untyped Python numbers to float32 whatever the x64 flag says: typed arrays only in x64 cases
            init = "array"
        if init == "int":
            # admissible only where the bijector itself (TFP, without liesel) maps the integer value to a float
            try:
                probe_args = {k: jnp.asarray(v, ft) for k, v in case["args"].items()}
                pb = {"default": lambda: Dist(**probe_args).experimental_default_event_space_bijector(),
                      "Scale": lambda: tfb.Scale(scale=jnp.asarray(case["bij_arg"], ft)),
                      "Shift": lambda: tfb.Shift(shift=jnp.asarray(case["bij_arg"], ft))}.get(
                          bij, lambda: getattr(tfb, bij)())()
                probe = pb.inverse(int(v0) if not shape else np.asarray(v0, np.int32))
                if not jnp.issubdtype(jnp.asarray(probe).dtype, jnp.floating):
                    raise TypeError("integer image")
            except Exception:  # noqa: BLE001
                init = "array"
                v0 = support_value(rng, fam, shape, case["args"])
                res.skip("the TFP bijector does not accept an integer-valued input")
        if init == "int":
            given = int(v0) if not shape else (np.asarray(v0, np.int32) if case["idx"] % 2 else np.asarray(v0, np.int64))
            res.ev("integer_valued_initial_value")
        elif init == "pyfloat":
            given = float(v0) if not shape else [float(e) for e in v0]
        else:
            given = jnp.asarray(v0, ft)
        dist0 = lsl.Dist(Dist, **dargs)
        dist0.per_obs = bool(case.get("per_obs", True))
        var = lsl.Var(given, dist0, name="x")
        given0 = np.array(np.asarray(given), copy=True)
        var.parameter = case["parameter"]
        barg_var = None
        if bij in ("Scale", "Shift"):
            barg = case["bij_arg"]
            if case["bij_arg_is_var"]:
                barg_var = lsl.Var(jnp.asarray(barg, ft), name="barg")
        gb = lsl.GraphBuilder(to_float32=not x64)
        tvar = None
        ff = case.get("failed_first", "none")
        if ff != "none" and entry.startswith("var_"):
            # a transform call that must fail, and must leave the variable exactly as it was
            res.mon("unchanged_after_failed_transform")
            try:
                if ff == "instance_with_args":
                    var.transform(tfb.Exp(), 1.0)
                elif ff == "class_without_args":
                    var.transform(tfb.Scale)
                else:
                    var.transform(tfb.Scale, not_a_parameter=2.0)
                res.violation("bad-transform-accepted", f"Var.transform with an invalid call ({ff}) did not raise", w)
            except Exception:  # noqa: BLE001
                pass
            if (var.parameter != case["parameter"] or not var.has_dist or not var.strong
                    or not np.array_equal(np.asarray(var.value), given0)):
                res.violation("changed-by-failed-transform", f"a failed Var.transform ({ff}) changed the variable: parameter="
                              f"{var.parameter} (was {case['parameter']}), has_dist={var.has_dist}, strong={var.strong}", w)
        with warnings.catch_warnings():
            warnings.simplefilter("ignore")
            if entry == "var_instance":
                tvar = var.transform({"Exp": tfb.Exp, "Softplus": tfb.Softplus, "Sigmoid": tfb.Sigmoid, "Identity": tfb.Identity}[bij]())
                res.mon("entry_var_transform_instance")
            elif entry == "var_class":
                kw = {"scale" if bij == "Scale" else "shift": barg_var if barg_var is not None else jnp.asarray(case["bij_arg"], ft)}
                tvar = var.transform(getattr(tfb, bij), **kw)
                res.mon("entry_var_transform_class")
            elif entry == "var_default":
                tvar = var.transform(None)
                res.mon("entry_var_transform_default")
            elif entry == "auto":
                var.auto_transform = True
                res.mon("entry_auto_transform")
            elif entry == "gb_instance":
                tvar = gb.transform(var, {"Exp": tfb.Exp, "Softplus": tfb.Softplus, "Sigmoid": tfb.Sigmoid, "Identity": tfb.Identity}[bij]())
                res.mon("entry_graphbuilder_transform")
            elif entry == "gb_class_noargs":
                tvar = gb.transform(var, {"Exp": tfb.Exp, "Softplus": tfb.Softplus, "Sigmoid": tfb.Sigmoid, "Identity": tfb.Identity}[bij])
                res.mon("entry_graphbuilder_transform")
            elif entry == "gb_class":
                kw = {"scale" if bij == "Scale" else "shift": barg_var if barg_var is not None else jnp.asarray(case["bij_arg"], ft)}
                tvar = gb.transform(var, getattr(tfb, bij), **kw)
                res.mon("entry_graphbuilder_transform")
            elif entry == "gb_default":
                tvar = gb.transform(var, None)
                res.mon("entry_graphbuilder_transform")
            chain2 = case.get("chain2", "none")
            tmid = None
            c2var = None
            if chain2 != "none" and tvar is not None:
                # the new variable is itself re-expressed: x = b1(u), u = c * z
                tmid = tvar
                c2 = case["chain2_scale"]
                if chain2 == "instance":
                    tvar = tmid.transform(tfb.Scale(jnp.asarray(c2, ft)))
                else:
                    c2var = lsl.Var(jnp.asarray(c2, ft), name="c2")
                    tvar = tmid.transform(tfb.Scale, scale=c2var)
                res.mon("second_transform_of_new_variable")
            if case.get("via_root", False):
                # documented workflow: only the root is added; the (flagged / transformed) variable is found as its input
                root = lsl.Var(lsl.Calc(lambda v_: v_ * 1.0, var), name="root")
                gb.add(root)
            else:
                gb.add(var)
            model = gb.build_model()
        if entry == "auto":
            if "x_transformed" not in model.vars:
                res.violation("auto-transform-not-applied", "auto_transform=True but the built model has no variable "
                              f"'x_transformed' (variables: {sorted(model.vars)})", w)
                return res
            tvar = model.vars["x_transformed"]
        # ---- oracle pieces (independent instances, current parameter values)

        def cur_args():
            return {k: (np.asarray(pvars[k].value) if k in pvars else np.asarray(v, np.float64)) for k, v in case["args"].items()}

        def oracle_bijector():
            if bij == "default":
                return Dist(**{k: jnp.asarray(v, ft) for k, v in cur_args().items()}).experimental_default_event_space_bijector()
            if bij == "Scale":
                return tfb.Scale(scale=jnp.asarray(barg_var.value if barg_var is not None else case["bij_arg"], ft))
            if bij == "Shift":
                return tfb.Shift(shift=jnp.asarray(barg_var.value if barg_var is not None else case["bij_arg"], ft))
            return {"Exp": tfb.Exp, "Softplus": tfb.Softplus, "Sigmoid": tfb.Sigmoid, "Identity": tfb.Identity}[bij]()

        oracle_b1 = oracle_bijector
        if tmid is not None:
            def oracle_bijector():  # noqa: F811
                return tfb.Chain([oracle_b1(), tfb.Scale(jnp.asarray(case["chain2_scale"], ft))])

            # the intermediate variable lost flag and distribution as well, and is the image of the newest one
            if tmid.parameter or tmid.has_dist or not tmid.weak:
                res.violation("parameter-flag", f"after the second transform the intermediate variable has parameter={tmid.parameter} "
                              f"has_dist={tmid.has_dist} weak={tmid.weak}", w)
            if tmid.name not in model.vars or tvar.name not in model.vars:
                res.violation("chained-variable-missing", f"the model lacks the variables of the chained transformation: {sorted(model.vars)}", w)
                return res

        # ---- structural clauses
        res.mon("parameter_flag_moved")
        if tvar.parameter != case["parameter"] or var.parameter:
            res.violation("parameter-flag", f"parameter flag: original was {case['parameter']}, after transform new={tvar.parameter} "
                          f"original={var.parameter}", w)
        res.mon("original_has_no_distribution")
        if var.dist_node is not None or var.has_dist or not var.weak or not tvar.strong or not tvar.has_dist:
            res.violation("original-keeps-distribution", f"after transform: original has_dist={var.has_dist} weak={var.weak}; "
                          f"new strong={tvar.strong} has_dist={tvar.has_dist}", w)
        if float(np.sum(np.asarray(var.log_prob))) != 0.0:
            res.violation("original-keeps-distribution", f"original variable still contributes log_prob {var.log_prob}", w)
        res.mon("per_obs_setting_carried_over")
        if bool(tvar.dist_node.per_obs) != bool(case.get("per_obs", True)):
            res.violation("per-obs-not-carried", f"the original distribution had per_obs={case.get('per_obs', True)}, the new "
                          f"variable's distribution has per_obs={tvar.dist_node.per_obs}", w)
        res.mon("original_value_unchanged")
        got0 = np.asarray(var.value, np.float64)
        if got0.shape != np.shape(v0) or not np.allclose(got0, v0, rtol=1e-9 if x64 else 3e-5, atol=1e-9 if x64 else 1e-6):
            res.violation("original-value-changed", f"original value {np.asarray(v0).tolist()} became {got0.tolist()} after the transformation", w)
        # ---- pointwise clauses
        nontriv = False
        for j in range(case.get("npts", 20)):
            if j > 0:
                if fam in POS and bij in ("Exp",):
                    t = rng.normal(0, 1.2, size=shape)
                elif fam in POS:
                    t = rng.normal(0.3, 1.5, size=shape)
                elif fam in UNIT:
                    t = rng.normal(0, 1.5, size=shape)
                else:
                    t = rng.normal(0, 1.5, size=shape)
                if tmid is not None:
                    # keep u = c*z in the range the float32 autodiff oracle resolves (sigmoid'(u) = s(1-s) cancels for u >> 1)
                    t = t / case["chain2_scale"]
                t = np.round(t, 3)
                # re-assign a parameter variable now and then
                if pvars and rng.random() < 0.3:
                    k = list(pvars)[int(rng.integers(len(pvars)))]
                    pbase[k].value = jnp.asarray(case["args"][k] * float(np.round(rng.uniform(0.7, 1.4), 2)), ft)
                if barg_var is not None and rng.random() < 0.3:
                    barg_var.value = jnp.asarray(float(np.round(rng.uniform(0.5, 3.0), 2)), ft)
                tvar.value = jnp.asarray(t, ft)
            t_now = jnp.asarray(tvar.value, ft)
            b = oracle_bijector()
            img = b.forward(t_now)
            res.mon("original_is_bijector_image")
            got = np.asarray(var.value, np.float64)
            if not np.allclose(got, np.asarray(img, np.float64), rtol=1e-9 if x64 else 2e-5, atol=1e-9 if x64 else 1e-6):
                res.violation("original-not-image", f"point {j}: original = {got.tolist()} but b(new) = {np.asarray(img).tolist()} "
                              f"(t={np.asarray(t_now).tolist()})", w)
                break
            if tmid is not None:
                gmid = np.asarray(tmid.value, np.float64)
                emid = np.asarray(t_now, np.float64) * case["chain2_scale"]
                if not np.allclose(gmid, emid, rtol=1e-9 if x64 else 2e-5, atol=1e-9 if x64 else 1e-6):
                    res.violation("original-not-image", f"point {j}: intermediate variable = {gmid.tolist()} but c*z = {emid.tolist()}", w)
                    break
            d = Dist(**{k: jnp.asarray(v, ft) for k, v in cur_args().items()})
            lp_orig = np.asarray(d.log_prob(img), np.float64)
            if shape:
                der = jax.vmap(jax.grad(lambda s: b.forward(s)))(t_now)
            else:
                der = jax.grad(lambda s: b.forward(s))(t_now)
            ljac = np.log(np.abs(np.asarray(der, np.float64)))
            exp = lp_orig + ljac
            gotlp = np.asarray(tvar.log_prob, np.float64)
            if not case.get("per_obs", True):
                exp = exp.sum()
            res.mon("density_change_of_variables")
            if gotlp.shape != np.shape(exp) or not np.all(np.abs(gotlp - exp) <= tolf(lp_orig, ljac)):
                mech = "density-without-jacobian" if np.allclose(gotlp, lp_orig, atol=1e-4) and np.max(np.abs(ljac)) > 1e-3 else "density-wrong"
                res.violation(mech, f"point {j}: log p_new(t) = {gotlp.tolist()} but log p_orig(b(t)) + log|b'(t)| = "
                              f"{np.asarray(exp).tolist()} (log p_orig={lp_orig.tolist()}, log|b'|={ljac.tolist()})", w)
                break
            mlp = float(model.log_prob)
            if off(mlp, float(np.sum(exp)), 2 * tolf(lp_orig, ljac) * max(1, len(np.ravel(exp)))):
                res.violation("model-log-prob", f"point {j}: model.log_prob = {mlp} != {float(np.sum(exp))}", w)
                break
            if bij != "Identity" and np.max(np.abs(ljac)) > 0.05:
                nontriv = True
        # ---- the same identities must hold in a deep copy of the model after values changed *in the copy*
        if case.get("copy_phase") and not res.violations:
            import copy as _copy

            M2 = _copy.deepcopy(model) if case["idx"] % 2 else lsl.GraphBuilder(to_float32=not x64).add(
                *model.copy_nodes_and_vars()[1].values()).build_model()
            res.mon("identities_hold_in_a_copy")
            new_args = {}
            for k in pvars:
                nv = float(case["args"][k] * 1.3)
                M2.vars[pbase[k].name].value = jnp.asarray(nv, ft)
                new_args[k] = nv
            nb = None
            if barg_var is not None:
                nb = float(np.round(case["bij_arg"] * 0.6 + 0.4, 3))
                M2.vars["barg"].value = jnp.asarray(nb, ft)
            t2 = jnp.asarray(np.round(rng.normal(0.2, 0.8, size=shape), 3), ft)
            M2.vars[tvar.name].value = t2
            args2 = {k: jnp.asarray(new_args.get(k, v), ft) for k, v in case["args"].items()}
            if bij == "default":
                b2 = Dist(**args2).experimental_default_event_space_bijector()
            elif bij == "Scale":
                b2 = tfb.Scale(scale=jnp.asarray(nb if nb is not None else case["bij_arg"], ft))
            elif bij == "Shift":
                b2 = tfb.Shift(shift=jnp.asarray(nb if nb is not None else case["bij_arg"], ft))
            else:
                b2 = {"Exp": tfb.Exp, "Softplus": tfb.Softplus, "Sigmoid": tfb.Sigmoid, "Identity": tfb.Identity}[bij]()
            if tmid is not None:
                b2 = tfb.Chain([b2, tfb.Scale(jnp.asarray(case["chain2_scale"], ft))])
            img2 = np.asarray(b2.forward(t2), np.float64)
            got2 = np.asarray(M2.vars["x"].value, np.float64)
            if not np.allclose(got2, img2, rtol=1e-9 if x64 else 2e-5, atol=1e-9 if x64 else 1e-6):
                res.violation("original-not-image", f"in a copy of the model (values changed in the copy): original = {got2.tolist()} "
                              f"but b(new) = {img2.tolist()}", w)
            else:
                lp2 = np.asarray(Dist(**args2).log_prob(jnp.asarray(img2, ft)), np.float64)
                der2 = jax.vmap(jax.grad(lambda s_: b2.forward(s_)))(t2) if shape else jax.grad(lambda s_: b2.forward(s_))(t2)
                exp2 = lp2 + np.log(np.abs(np.asarray(der2, np.float64)))
                g2 = np.asarray(M2.vars[tvar.name].log_prob, np.float64)
                if not case.get("per_obs", True):
                    exp2 = exp2.sum()
                if g2.shape != np.shape(exp2) or not np.all(np.abs(g2 - exp2) <= tolf(lp2, exp2 - lp2)):
                    res.violation("density-wrong", f"in a copy of the model: log p_new(t) = {g2.tolist()} vs {np.asarray(exp2).tolist()}", w)
        if nontriv:
            res.nontriv(("c14", fam, bij, entry, tuple(shape), case["parameter"], case["idx"]))
    except Exception as exc:  # noqa: BLE001
        mech, text = exc_mech(exc)
        if mech is None:
            raise
        res.violation(mech, f"transformation raised on an in-domain case\n{text}", w)
    res.sample = {k: case[k] for k in ("fam", "bij", "entry", "shape", "parameter", "args", "arg_is_var", "x64")}
    return res


def gen_cases(tier, seed):
    n = 140 if tier == "quick" else 12000
    out = []
    for i in range(n):
        rng = rng_for(seed, "c14-gen", i)
        c = gen_case(rng, i, seed)
        if i % 10 == 7:
            # a fixed share of the cases: parameter-dependent default bijector (Uniform(low, high) with `high` a weak
            # variable whose input was re-assigned without an update) through the deprecated GraphBuilder.transform
            c.update({"fam": "Uniform", "bij": "default", "entry": "gb_default", "args": {"low": 0.0, "high": float(np.round(rng.uniform(1.5, 3.0), 2))},
                      "arg_is_var": {"high": True}, "weak_params": True, "chain2": "none", "init": "array", "failed_first": "none"})
        c["cost"] = 2
        out.append(c)
    return out
