"""C03 — state-passing model interface: pure, equivalent to direct assignment, jit/vmap-safe."""

from __future__ import annotations

import numpy as np

from vlib.coherence import arr_equal_bits
from vlib.common import CaseResult, exc_mech, off, rng_for, struct_hash
from vlib.gengraph import Program, gen_program, sane

ID = "C03"
RULE = (
    "random DAG programs (as C01, with distributions) x histories of 20-60 interface calls mixing "
    "update_state (positions keyed by variable name, value-node name, mixed; 1..all keys; states from the "
    "original model, from earlier results and from other history branches), extract_position, log_prob, "
    "jit(update_state), vmap(update_state) on the same LieselInterface object, interleaved with mutations "
    "of the user's model and with construction of further interfaces while the user's model has pending updates; "
    "programs with user-supplied log_prob nodes; generated statistical models judged against the scipy oracle; keys "
    "that are both a node name and another variable's name; plus Dict/Dataclass/NamedTuple interface law histories. Also: interfaces built from models with auto-update off; out-of-support positions (NaN log-prob) and float positions into int-initialised variables; a dataclass state with an init=False field and a normalising __post_init__; NumPy-valued models driven eagerly with NumPy positions. Round 5: calls that cannot succeed (wrong-shaped position, unknown key) between valid calls. non-trivial = history "
    "with >= 2 calls on the same (position,state) separated by other calls, and a jit and a vmap call; "
    "distinct by (program, history) hash"
)
REQUIRED = ["edge_inputs_equal_direct_assignment", "interface_construction_leaves_user_model", "put_get_law_with_colliding_names", "realistic_log_prob_vs_oracle", "result_equals_spec_evaluation", "result_equals_direct_assignment", "history_independent",
            "input_state_unchanged", "user_model_unchanged", "extract_returns_position",
            "log_prob_equals_model", "jit_equals_eager", "vmap_equals_eager", "simple_interface_laws", "numpy_valued_model_eager"]
ANCHORS = ["goose/interface.py:LieselInterface.update_state", "goose/interface.py:LieselInterface.extract_position",
           "model/model.py:Model._copy_computational_model", "goose/interface.py:DataclassInterface.update_state",
           "goose/interface.py:DictInterface.update_state", "goose/interface.py:NamedTupleInterface.update_state"]
ASSUMPTIONS = ["only settable keys (strong variables / Value nodes) are used as position keys",
               "states passed in are fully up to date, as update_state's docstring requires"]
WORKERS = 16
TIMEOUT = {"quick": 1500, "thorough": 10800}


def state_bytes(st):
    import jax

    return [np.asarray(x).tobytes() for x in jax.tree_util.tree_leaves(st)]


def make_program(seed, idx):
    for attempt in range(50):
        rng = rng_for(seed, "c03-prog", idx, attempt)
        desc = gen_program(rng, n_units=(3, 11), p_dist=0.7, p_user_lp=0.3)
        if sane(desc):
            return desc, rng
    raise RuntimeError


def compare_state(res, prog, st, expected, what, w, exact=True):
    """State dict vs spec evaluation."""
    for n in prog.nodes:
        name = n.obj.name
        ns = st.get(name)
        if ns is None:
            res.violation("state-missing-node", f"{what}: node {name} missing from returned state", w)
            return False
        if bool(np.any(np.asarray(ns.outdated))):
            res.violation("state-outdated", f"{what}: node {name} flagged outdated in returned state", w)
            return False
        if n.kind in ("transient", "proxy", "group"):
            continue
        got = ns.value
        exp = expected[n.sid]
        if n.kind in ("input", "seed", "calc") and exact:
            ok = got is not None and arr_equal_bits(np.asarray(got), np.asarray(exp))
        else:
            ok = got is not None and np.shape(got) == np.shape(exp) and np.allclose(
                np.asarray(got, np.float64), np.asarray(exp, np.float64), rtol=2e-6, atol=1e-4 if n.kind == "msum" else 2e-6)
        if not ok:
            res.violation("wrong-state", f"{what}: node {name} [{n.kind}] = {None if got is None else np.asarray(got).tolist()}, "
                          f"expected {np.asarray(exp).tolist()}", w)
            return False
    return True


def states_close(a, b, exact):
    import jax

    la, ta = jax.tree_util.tree_flatten(a)
    lb, tb = jax.tree_util.tree_flatten(b)
    if len(la) != len(lb):
        return False, "structure"
    for i, (x, y) in enumerate(zip(la, lb)):
        x = np.asarray(x)
        y = np.asarray(y)
        if x.shape != y.shape:
            return False, f"leaf {i} shape {x.shape} vs {y.shape}"
        if exact:
            if x.tobytes() != y.tobytes():
                return False, f"leaf {i} differs bitwise: {x.tolist()} vs {y.tolist()}"
        elif not np.allclose(x.astype(np.float64), y.astype(np.float64), rtol=1e-6, atol=1e-5):
            return False, f"leaf {i}: {x.tolist()} vs {y.tolist()}"
    return True, ""


def case_liesel(case, res):
    import jax
    import jax.numpy as jnp
    import liesel.goose as gs

    desc, rng = make_program(case["seed"], case["idx"])
    A = Program(desc)
    A.build()
    A.reset_inputs()
    B = Program(desc)
    B.build()
    B.model.auto_update = False
    if case["idx"] % 2 == 1:
        # the user has switched automatic updates off (the model itself is fully updated) before wrapping it
        A.model.auto_update = False
        res.ev("interface_built_from_model_with_auto_update_off")
    iface = gs.LieselInterface(A.model)
    jit_update = jax.jit(iface.update_state)
    vmap_update = jax.vmap(iface.update_state)
    settable = A.settable()          # (sid, how, obj)
    by_sid: dict[int, list] = {}
    for sid, how, obj in settable:
        by_sid.setdefault(sid, []).append((how, obj))
    sids = sorted(by_sid)
    # known states: list of (state, inputs dict)
    S0 = A.model.state
    states = [(S0, dict(A.cur_inputs))]
    cache: dict = {}
    hist = []
    n_repeat = n_jit = n_vmap = 0
    user_snapshot = state_bytes(A.model.state)

    def w(extra=None):
        d = {"units": desc["units"][:10], "history": hist[-10:], "n_calls": len(hist)}
        if extra:
            d.update(extra)
        return d

    def rand_position():
        k = int(rng.integers(1, len(sids) + 1))
        chosen = [int(s) for s in rng.choice(sids, size=k, replace=False)]
        pos, inp, keyinfo = {}, {}, []
        for s in chosen:
            how, obj = by_sid[s][int(rng.integers(len(by_sid[s])))]
            key = obj.name
            v = np.asarray(A.initial_value(s) + np.float32(rng.integers(-2, 3)), np.float32)
            pos[key] = jnp.asarray(v)
            inp[s] = v
            keyinfo.append((key, how))
        return pos, inp, keyinfo

    def pos_hash(pos):
        return struct_hash({k: np.asarray(v).tolist() for k, v in sorted(pos.items())})

    n_calls = case["n_calls"]
    pool = []  # earlier (pos, inp, keyinfo, state index) for repeats
    for step in range(n_calls):
        r = rng.random()
        if pool and r < 0.22:
            pos, inp, keyinfo, si = pool[int(rng.integers(len(pool)))]
            repeat = True
        else:
            pos, inp, keyinfo = rand_position()
            si = int(rng.integers(len(states))) if rng.random() < 0.7 else 0
            repeat = False
        S, Sin = states[si]
        mode = "eager"
        if r > 0.75:
            mode = "jit"
        if r > 0.9:
            mode = "vmap"
        hist.append([mode, keyinfo, f"state#{si}"])
        before = state_bytes(S)
        new_in = dict(Sin)
        new_in.update(inp)
        expected = A.evaluate(new_in)
        ck = (pos_hash(pos), si)
        if mode == "eager":
            out = iface.update_state(pos, S)
            compare_state(res, A, out, expected, "update_state", w())
            res.mon("result_equals_spec_evaluation")
            # direct path on the twin: model holding S, assign p, full update
            B.model.state = S
            for key, how in keyinfo:
                if how == "var":
                    B.model.vars[key].value = pos[key]
                else:
                    B.model.nodes[key].value = pos[key]
            B.model.update()
            direct = B.model.state
            ok, why = states_close({k: v.value for k, v in direct.items()}, {k: v.value for k, v in out.items()}, exact=True)
            res.mon("result_equals_direct_assignment")
            if not ok:
                res.violation("differs-from-direct-assignment", f"update_state result differs from assigning the position on a "
                              f"model holding the state and updating: {why}", w())
            if ck in cache:
                n_repeat += 1
                res.mon("history_independent")
                ok, why = states_close(cache[ck], out, exact=True)
                if not ok:
                    res.violation("history-dependent", f"same (position, state) gave a different result after "
                                  f"{len(hist)} calls: {why}", w())
            else:
                cache[ck] = out
            # extract / log_prob laws
            keys = list(pos)
            got = iface.extract_position(keys, out)
            res.mon("extract_returns_position")
            if set(got) != set(keys) or any(not arr_equal_bits(np.asarray(got[k]), np.asarray(pos[k])) for k in keys):
                res.violation("extract-position", f"extract_position(update_state(p,S)) != p: "
                              f"{ {k: np.asarray(v).tolist() for k, v in got.items()} } vs "
                              f"{ {k: np.asarray(v).tolist() for k, v in pos.items()} }", w())
            lp = iface.log_prob(out)
            msum = [n for n in A.nodes if n.role == "_model_log_prob"][0]
            res.mon("log_prob_equals_model")
            if lp is None:
                res.violation("interface-log-prob-none", "interface.log_prob(state) returned None although the model's "
                              f"log-probability at those values is {float(expected[msum.sid])} "
                              f"(user-supplied log_prob node: {desc.get('user_log_prob') is not None})", w())
            elif not np.allclose(float(lp), float(expected[msum.sid]), rtol=1e-5, atol=1e-4):
                res.violation("log-prob", f"interface.log_prob = {float(lp)}, model log-prob at those values = "
                              f"{float(expected[msum.sid])}", w())
            states.append((out, new_in))
            pool.append((pos, inp, keyinfo, si))
        elif mode == "jit":
            n_jit += 1
            out = jit_update(pos, S)
            res.mon("jit_equals_eager")
            compare_state(res, A, out, expected, "jit(update_state)", w(), exact=False)
            if ck in cache:
                ok, why = states_close({k: v.value for k, v in cache[ck].items()}, {k: v.value for k, v in out.items()}, exact=False)
                if not ok:
                    res.violation("jit-differs", f"jit(update_state) differs from eager result: {why}", w())
        else:
            n_vmap += 1
            m = int(rng.integers(2, 4))
            items = [(pos, inp, S, Sin)]
            for _ in range(m - 1):
                p2, i2, _k = rand_position()
                # same keys as the first item so that the batch is rectangular
                p2 = {k: pos[k] + np.float32(rng.integers(-2, 3)) for k in pos}
                i2 = {s: np.asarray(p2[[kk for kk, _h in keyinfo][list(inp).index(s)]], np.float32) for s in inp}
                S2, Sin2 = states[int(rng.integers(len(states)))]
                items.append((p2, i2, S2, Sin2))
            P = {k: jnp.stack([jnp.asarray(it[0][k]) for it in items]) for k in pos}
            SB = jax.tree_util.tree_map(lambda *xs: jnp.stack([jnp.asarray(x) for x in xs]), *[it[2] for it in items])
            out = vmap_update(P, SB)
            res.mon("vmap_equals_eager")
            for j, it in enumerate(items):
                oj = jax.tree_util.tree_map(lambda x: x[j], out)
                ni = dict(it[3])
                ni.update(it[1])
                compare_state(res, A, oj, A.evaluate(ni), f"vmap(update_state)[{j}]", w(), exact=False)
        res.mon("input_state_unchanged")
        if state_bytes(S) != before:
            res.violation("input-state-mutated", f"{mode} update_state changed its input state", w())
        res.mon("user_model_unchanged")
        now = state_bytes(A.model.state)
        if now != user_snapshot:
            res.violation("user-model-mutated", f"{mode} update_state changed the user's model", w())
        # occasionally build ANOTHER interface while the user's model has pending (outdated) nodes:
        # constructing an interface must not change the user's model (values or flags)
        if rng.random() < 0.08:
            sid, how, obj = settable[int(rng.integers(len(settable)))]
            was_auto = A.model.auto_update
            A.model.auto_update = False
            obj.value = jnp.asarray(np.asarray(A.initial_value(sid) + np.float32(rng.integers(-2, 3)), np.float32))
            pend = state_bytes(A.model.state)
            n_out = sum(1 for n_ in A.model.nodes.values() if n_.outdated)
            iface_b = gs.LieselInterface(A.model)
            res.mon("interface_construction_leaves_user_model")
            if state_bytes(A.model.state) != pend or sum(1 for n_ in A.model.nodes.values() if n_.outdated) != n_out:
                res.violation("user-model-mutated", "constructing a LieselInterface changed the user's model (values or outdated "
                              f"flags; {n_out} nodes were outdated before)", w())
            A.model.update()
            A.model.auto_update = was_auto
            hist.append(["second-interface-with-pending-updates", obj.name])
            user_snapshot = state_bytes(A.model.state)
            _ = iface_b
        # occasionally mutate the user's model: the interface must be detached from it
        if rng.random() < 0.15:
            sid, how, obj = settable[int(rng.integers(len(settable)))]
            v = jnp.asarray(np.asarray(A.initial_value(sid) + np.float32(rng.integers(-2, 3)), np.float32))
            if rng.random() < 0.3:
                A.model.auto_update = not A.model.auto_update
            if how == "var":
                obj.value = v
            else:
                obj.value = v
            hist.append(["mutate-user-model", obj.name])
            user_snapshot = state_bytes(A.model.state)
        if len(res.violations) >= 3:
            break
    res.ev("interface_calls", len(hist))
    if n_repeat >= 1 and n_jit >= 1 and n_vmap >= 1:
        res.nontriv(struct_hash([desc, hist]))
    res.sample = {"units": desc["units"][:8], "calls": hist[:10]}


_CLS = None


def _state_classes():
    global _CLS
    if _CLS is None:
        from dataclasses import dataclass
        from typing import NamedTuple

        import jax.numpy as jnp
        from liesel.goose.pytree import register_dataclass_as_pytree

        @register_dataclass_as_pytree
        @dataclass
        class DState:
            x: jnp.ndarray
            y: jnp.ndarray
            z: jnp.ndarray

        class NState(NamedTuple):
            x: jnp.ndarray
            y: jnp.ndarray
            z: jnp.ndarray

        from dataclasses import field
        from typing import Any

        @dataclass
        class PState:
            """A state class with a derived field that is not an __init__ argument and a normalising __post_init__
            (both legal for DataclassInterface, which copies the instance and assigns attributes)."""
            x: Any
            y: Any
            z: Any
            w: Any = field(init=False)

            def __post_init__(self):
                self.w = self.x * 2.0
                self.z = self.z * 0.5

        _CLS = (DState, NState, PState)
    return _CLS


def case_collision(case, res):
    """A key that is both a node name and the name of another variable (e.g. variables `tau` and `tau_value`):
    whichever object the interface resolves it to, put followed by get must return what was put."""
    import jax
    import jax.numpy as jnp
    import liesel.goose as gs
    import liesel.model as lsl

    rng = rng_for(case["seed"], "c03-coll", case["idx"])
    a = lsl.Var(jnp.asarray(1.0, jnp.float32), name="tau")
    b = lsl.Var(jnp.asarray(7.0, jnp.float32), name="tau_value")       # collides with tau's value node name? no:
    # tau's value node is named "tau_value"; variable b is *named* "tau_value" (its node is "tau_value_value")
    c = lsl.Calc(lambda x, y: x + 2 * y, a, b, _name="c")
    model = lsl.GraphBuilder().add(c).build_model()
    iface = gs.LieselInterface(model)
    S = model.state
    for step in range(case["n_calls"]):
        key = str(rng.choice(["tau_value", "tau", "tau_value_value"]))
        v = jnp.asarray(np.float32(rng.integers(-5, 6)) + np.float32(0.5))
        f = jax.jit(iface.update_state) if step % 3 == 2 else iface.update_state
        out = f({key: v}, S)
        got = iface.extract_position([key], out)[key]
        res.mon("put_get_law_with_colliding_names")
        if not arr_equal_bits(np.asarray(got), np.asarray(v)):
            res.violation("extract-position", f"key {key!r} (both a node name and a variable name in this model): put {float(v)}, "
                          f"extract_position returned {float(got)}", {"key": key})
            break
        # the derived node is consistent with whatever was set
        tv = float(out["tau_value"].value)
        bv = float(out["tau_value_value"].value)
        if off(float(out["c"].value), tv + 2 * bv, 1e-5):
            res.violation("wrong-state", "derived node inconsistent after update with a colliding key", {"key": key})
        S = out
    res.nontriv(("collision", case["idx"]))
    res.sample = {"kind": "name-collision", "keys": ["tau", "tau_value", "tau_value_value"]}


def case_edge(case, res):
    """Edge inputs: (i) positions outside a distribution's support (the model's log-probability is NaN or
    -inf: the interface must report exactly what the model reports); (ii) a variable initialised with an
    integer array receiving a float position (must be stored as given, as direct assignment does)."""
    import jax
    import jax.numpy as jnp
    import liesel.goose as gs
    import liesel.model as lsl
    import tensorflow_probability.substrates.jax.distributions as tfd

    rng = rng_for(case["seed"], "c03-edge", case["idx"])

    def build():
        scale = lsl.param(jnp.asarray(1.0, jnp.float32), lsl.Dist(tfd.Gamma, concentration=2.0, rate=1.0), name="scale")
        n_ = lsl.Var(jnp.asarray([1, 2, 3]), name="counts")                     # integer-initialised
        k_ = lsl.Var(3, name="k_int")                                           # Python int
        mu = lsl.Var(lsl.Calc(lambda c, k: jnp.sum(c) * 0.1 + k, n_, k_), name="mu")
        y = lsl.obs(jnp.asarray([0.3, -0.2, 1.1], jnp.float32), lsl.Dist(tfd.Normal, loc=mu, scale=scale), name="y")
        return lsl.GraphBuilder().add(y).build_model()

    A, B = build(), build()
    iface = gs.LieselInterface(A)
    S = A.state
    B.auto_update = False
    for step in range(case["n_calls"]):
        kind = str(rng.choice(["nan_scale", "float_into_int", "float_into_pyint", "ok"]))
        if kind == "nan_scale":
            pos = {"scale": jnp.asarray(float(rng.choice([-1.0, -0.5, 0.0])), jnp.float32)}
        elif kind == "float_into_int":
            pos = {"counts": jnp.asarray(np.round(rng.normal(2, 1, 3), 2), jnp.float32)}
        elif kind == "float_into_pyint":
            pos = {"k_int": jnp.asarray(float(np.round(rng.normal(2, 1), 2)), jnp.float32)}
        else:
            pos = {"scale": jnp.asarray(float(np.round(np.exp(rng.normal(0, 0.5)), 3)), jnp.float32)}
        mode = ["eager", "jit"][step % 2]
        out = (jax.jit(iface.update_state) if mode == "jit" else iface.update_state)(pos, S)
        # direct path on the twin
        B.state = S
        for k, v in pos.items():
            B.vars[k].value = v
        B.update()
        res.mon("edge_inputs_equal_direct_assignment")
        lp_i, lp_m = np.asarray(iface.log_prob(out)), np.asarray(B.log_prob)
        if not np.array_equal(lp_i.astype(np.float64), lp_m.astype(np.float64), equal_nan=True) and \
                not np.allclose(lp_i, lp_m, rtol=1e-6, atol=1e-6, equal_nan=True):
            res.violation("log-prob", f"{mode} {kind}: interface.log_prob = {lp_i} but the model's log-probability at those values is {lp_m}",
                          {"kind": kind, "pos": {k: np.asarray(v).tolist() for k, v in pos.items()}})
            break
        for k, v in pos.items():
            got = np.asarray(iface.extract_position([k], out)[k])
            if got.shape != np.shape(v) or not np.allclose(got.astype(np.float64), np.asarray(v, np.float64), rtol=0, atol=0):
                res.violation("extract-position", f"{mode} {kind}: put {np.asarray(v).tolist()} under {k!r}, extract_position returned "
                              f"{got.tolist()} (dtype {got.dtype})", {"kind": kind})
                break
        d_i, d_m = np.asarray(out["mu_value"].value, np.float64), np.asarray(B.vars["mu"].value, np.float64)
        if not np.allclose(d_i, d_m, rtol=1e-6, atol=1e-6, equal_nan=True):
            res.violation("differs-from-direct-assignment", f"{mode} {kind}: derived mu = {d_i} vs direct assignment {d_m}", {"kind": kind})
            break
        if kind == "ok":
            S = out
    res.nontriv(("edge", case["idx"]))
    res.sample = {"kind": "edge inputs (NaN log-prob, float into int-initialised variable)"}


def case_simple(case, res):
    """Dict / Dataclass / NamedTuple interfaces: put/get, non-mutation, log-prob, history independence."""
    import copy
    from dataclasses import dataclass
    from typing import NamedTuple

    import jax
    import jax.numpy as jnp
    import liesel.goose as gs

    rng = rng_for(case["seed"], "c03-simple", case["idx"])

    DState, NState, PState = _state_classes()

    def lp_dict(s):
        return -jnp.sum(s["x"] ** 2) - jnp.sum((s["y"] - s["z"]) ** 2)

    def lp_attr(s):
        return -jnp.sum(s.x ** 2) - jnp.sum((s.y - s.z) ** 2)

    def lp_post(s):
        return -jnp.sum(s.x ** 2) - jnp.sum((s.y - s.z) ** 2) - 0.1 * jnp.sum(s.w ** 2)

    def mk(kind, vals):
        if kind == "dict":
            return dict(vals)
        if kind == "dataclass":
            return DState(**vals)
        if kind == "dataclass_post":
            st = PState(**{k: v for k, v in vals.items() if k != "w"})
            st.w = vals["w"]
            return st
        return NState(**vals)

    def get(kind, s, k):
        return s[k] if kind == "dict" else getattr(s, k)

    kind = case["iface"]
    iface = {"dict": gs.DictInterface(lp_dict), "dataclass": gs.DataclassInterface(lp_attr),
             "dataclass_post": gs.DataclassInterface(lp_post), "namedtuple": gs.NamedTupleInterface(lp_attr)}[kind]
    shapes = {"x": (), "y": (3,), "z": (3,)}
    if kind == "dataclass_post":
        shapes["w"] = ()
    names = list(shapes)
    vals = {k: jnp.asarray(rng.integers(-3, 4, size=shapes[k]).astype(np.float32)) for k in shapes}
    S = mk(kind, vals)
    states = [S]
    cache = {}
    for step in range(case["n_calls"]):
        ks = [str(k) for k in rng.choice(names, size=int(rng.integers(1, 4)), replace=False)]
        pos = {k: jnp.asarray(rng.integers(-3, 4, size=shapes[k]).astype(np.float32)) for k in ks}
        si = int(rng.integers(len(states)))
        s = states[si]
        before = {k: np.asarray(get(kind, s, k)).tobytes() for k in shapes}
        s_copy_id = id(s)
        out = iface.update_state(pos, s)
        res.mon("simple_interface_laws")
        after = {k: np.asarray(get(kind, s, k)).tobytes() for k in shapes}
        if before != after:
            res.violation("simple-input-mutated", f"{kind}: update_state changed its input state", {"kind": kind, "keys": ks})
        if out is s and ks:
            res.violation("simple-input-mutated", f"{kind}: update_state returned its input object", {"kind": kind})
        got = iface.extract_position(ks, out)
        if set(got) != set(ks) or any(not arr_equal_bits(np.asarray(got[k]), np.asarray(pos[k])) for k in ks):
            res.violation("simple-put-get", f"{kind}: extract_position(update_state(p,S)) != p for keys {ks}", {"kind": kind})
        for k in shapes:
            exp = pos[k] if k in pos else get(kind, s, k)
            if not arr_equal_bits(np.asarray(get(kind, out, k)), np.asarray(exp)):
                res.violation("simple-put", f"{kind}: field {k} of the updated state is wrong", {"kind": kind, "keys": ks})
        d = {k: np.asarray(get(kind, out, k), np.float64) for k in shapes}
        exp_lp = -np.sum(d["x"] ** 2) - np.sum((d["y"] - d["z"]) ** 2) - (0.1 * np.sum(d["w"] ** 2) if "w" in d else 0.0)
        if not np.allclose(float(iface.log_prob(out)), exp_lp, rtol=1e-6, atol=1e-5):
            res.violation("simple-log-prob", f"{kind}: log_prob(updated state) wrong", {"kind": kind})
        ck = (struct_hash({k: np.asarray(v).tolist() for k, v in pos.items()}), si)
        flat = [np.asarray(get(kind, out, k)).tobytes() for k in shapes]
        if ck in cache and cache[ck] != flat:
            res.violation("simple-history-dependent", f"{kind}: same (p,S) gave different results", {"kind": kind})
        cache[ck] = flat
        # jit
        if step % 5 == 0 and kind != "dataclass_post":
            oj = jax.jit(iface.update_state)(pos, s)
            if any(not np.array_equal(np.asarray(get(kind, oj, k)), np.asarray(get(kind, out, k))) for k in shapes):
                res.violation("simple-jit", f"{kind}: jit(update_state) differs from eager", {"kind": kind})
        states.append(out)
        _ = copy, s_copy_id
    res.nontriv(("simple", kind, case["idx"]))
    res.sample = {"interface": kind, "calls": case["n_calls"]}


def case_numpy(case, res):
    """A model whose values are NumPy arrays (design matrices, data), positions handed over as NumPy arrays of the same
    shape and dtype, eager calls: the input state and the user's model stay bit-for-bit what they were, the same (p, S)
    gives the same result, and the result is the direct assignment."""
    import liesel.goose as gs
    import liesel.model as lsl
    import tensorflow_probability.substrates.jax.distributions as tfd

    rng = rng_for(case["seed"], "c03-numpy", case["idx"])

    def build():
        X = lsl.Var(np.asarray(rng0.normal(size=(4, 2)), np.float32), name="X")
        b_ = lsl.Var(np.asarray([0.5, -1.0], np.float32), lsl.Dist(tfd.Normal, loc=0.0, scale=3.0), name="b")
        b_.parameter = True
        mu = lsl.Var(lsl.Calc(lambda X_, b__: X_ @ b__, X, b_), name="mu")
        y = lsl.obs(np.asarray(rng0.normal(size=4), np.float32), lsl.Dist(tfd.Normal, loc=mu, scale=1.0), name="y")
        return lsl.GraphBuilder().add(y).build_model()

    rng0 = np.random.default_rng(case["idx"])
    A = build()
    rng0 = np.random.default_rng(case["idx"])
    B = build()
    B.auto_update = False
    iface = gs.LieselInterface(A)
    S = A.state
    user_before = state_bytes(S)
    states = [S]
    shapes = {"X": (4, 2), "b": (2,), "y": (4,)}
    for step in range(case["n_calls"]):
        ks = [str(k) for k in rng.choice(list(shapes), size=int(rng.integers(1, 3)), replace=False)]
        pos = {k: np.asarray(rng.normal(size=shapes[k]), np.float32) for k in ks}
        s = states[int(rng.integers(len(states)))]
        before = state_bytes(s)
        pos_before = {k: v.tobytes() for k, v in pos.items()}
        out1 = iface.update_state(pos, s)
        snap1 = state_bytes(out1)
        res.mon("numpy_valued_model_eager")
        w = {"keys": ks, "step": step, "model": "NumPy-valued Liesel model, NumPy positions, eager"}
        if state_bytes(s) != before:
            res.violation("input-state-mutated", "eager update_state with NumPy values changed its input state", w)
            break
        if state_bytes(A.state) != user_before:
            res.violation("user-model-mutated", "eager update_state with NumPy values changed the user's model", w)
            break
        out2 = iface.update_state(pos, s)
        if state_bytes(out2) != snap1 or state_bytes(out1) != snap1:
            res.violation("history-dependent", "the same (position, state) gave two different results, or the first result "
                          "changed when update_state was called again", w)
            break
        if {k: v.tobytes() for k, v in pos.items()} != pos_before:
            res.violation("input-state-mutated", "update_state changed the position it was given", w)
            break
        # direct assignment twin
        B.state = s
        for n_ in B.nodes.values():
            n_._outdated = False
        for k, v in pos.items():
            B.vars[k].value = v
        B.update()
        exp = B.state
        for nm in exp:
            a_, b_ = out1[nm].value, exp[nm].value
            if a_ is None and b_ is None:
                continue
            if not np.allclose(np.asarray(a_), np.asarray(b_), rtol=1e-6, atol=1e-6):
                res.violation("not-direct-assignment", f"node {nm}: update_state gives {np.ravel(np.asarray(a_))[:3].tolist()}, direct "
                              f"assignment on a twin model gives {np.ravel(np.asarray(b_))[:3].tolist()}", w)
                break
        states.append(out1)
        if len(res.violations) >= 2:
            break
    res.nontriv(("numpy", case["idx"]))
    res.sample = {"kind": "numpy-valued model", "calls": case["n_calls"]}


def case_realistic(case, res):
    """Generated statistical models (transformed variables, degenerate-MVN priors, weak variables with
    distributions): the interface's log-probability against the float64 scipy oracle, the direct-assignment
    twin, jit and vmap."""
    import jax
    import jax.numpy as jnp
    import liesel.goose as gs

    from vlib import statmodels as sm

    rng = rng_for(case["seed"], "c03-real", case["idx"])
    desc = sm.gen_model(rng)
    desc["user"] = {}
    vals0 = sm.initial_values(desc, rng)
    A = sm.build(desc, initial=vals0)
    B = sm.build(desc, initial=vals0)
    if case["idx"] % 2 == 1:
        A.model.auto_update = False
        res.ev("interface_built_from_model_with_auto_update_off")
    iface = gs.LieselInterface(A.model)
    S0 = A.model.state
    user_before = state_bytes(S0)
    items = [it for it in desc["items"] if it["t"] == "var"]
    states = [(S0, dict(vals0))]
    jit_update = jax.jit(iface.update_state)
    w = {"families": [(it["name"], it["fam"], it.get("transform", False)) for it in items]}
    for step in range(case["n_calls"]):
        k = int(rng.integers(1, len(items) + 1))
        chosen = [items[int(i)] for i in rng.choice(len(items), size=k, replace=False)]
        si = int(rng.integers(len(states)))
        S, vals = states[si]
        new_vals = dict(vals)
        pos, keyinfo = {}, []
        for it in chosen:
            v = sm.draw_value(rng, it["fam"], tuple(it["shape"]))
            new_vals[it["name"]] = v
            if it["name"] in A.transformed:
                tv = A.transformed[it["name"]]
                key = tv.name if rng.random() < 0.5 else tv.value_node.name
                pos[key] = jnp.asarray(sm.to_unconstrained(sm.bij_kind(it), v), A.ft)
            else:
                var = A.objs[it["name"]]
                key = var.name if rng.random() < 0.5 else var.value_node.name
                pos[key] = jnp.asarray(v, A.ft)
            keyinfo.append(key)
        o = sm.oracle(desc, new_vals)
        if o["min_p"] < 1e-5:
            res.skip("saturated Bernoulli probability")
            continue
        before = state_bytes(S)
        mode = "jit" if step % 4 == 3 else "eager"
        if step % 5 == 2:
            # a call that cannot succeed (a position of the wrong shape / an unknown key): whatever it raises, the
            # interface must serve the following calls as if it had never happened
            vec = [it for it in items if it["shape"]]
            try:
                if vec and step % 2 == 0:
                    it_ = vec[int(rng.integers(len(vec)))]
                    tgt_ = A.transformed[it_["name"]].name if it_["name"] in A.transformed else it_["name"]
                    iface.update_state({tgt_: jnp.zeros((int(it_["shape"][0]) + 2, 7), A.ft)}, S)
                else:
                    iface.update_state({**pos, "no_such_key": jnp.asarray(1.0)}, S)
                res.ev("bad_calls_that_did_not_raise")
            except Exception:  # noqa: BLE001
                res.ev("rejected_calls_between_valid_ones")
        out = (jit_update if mode == "jit" else iface.update_state)(pos, S)
        res.mon("realistic_log_prob_vs_oracle")
        lp = iface.log_prob(out)
        tol = 5e-4 + 2e-5 * o["abs_terms"] + 2.4e-7 * o["cond"]
        if lp is None or not np.isfinite(float(lp)) or abs(float(lp) - o["log_prob"]) > tol:
            res.violation("log-prob", f"{mode} update_state on a generated statistical model: interface.log_prob = {lp}, joint "
                          f"density at those values = {o['log_prob']} (keys {keyinfo})", w)
            break
        if mode == "eager":
            B.model.auto_update = False
            B.model.state = S
            for key in keyinfo:
                if key in B.model.vars:
                    B.model.vars[key].value = pos[key]
                else:
                    B.model.nodes[key].value = pos[key]
            B.model.update()
            res.mon("result_equals_direct_assignment")
            ok, why = states_close({k_: v_.value for k_, v_ in B.model.state.items()}, {k_: v_.value for k_, v_ in out.items()}, exact=True)
            if not ok:
                res.violation("differs-from-direct-assignment", f"realistic model: {why}", w)
                break
            got = iface.extract_position(list(pos), out)
            res.mon("extract_returns_position")
            if any(not arr_equal_bits(np.asarray(got[k_]), np.asarray(pos[k_])) for k_ in pos):
                res.violation("extract-position", "realistic model: extract_position(update_state(p,S)) != p", w)
            states.append((out, new_vals))
        res.mon("input_state_unchanged")
        if state_bytes(S) != before:
            res.violation("input-state-mutated", f"{mode} update_state changed its input state (realistic model)", w)
        res.mon("user_model_unchanged")
        if state_bytes(A.model.state) != user_before:
            res.violation("user-model-mutated", "update_state changed the user's model (realistic model)", w)
    res.nontriv(("real", case["idx"]))
    res.sample = dict(w, kind="realistic")


def run_case(case):
    res = CaseResult(case)
    res.evals = 1
    try:
        if case["kind"] == "edge":
            case_edge(case, res)
        elif case["kind"] == "numpy":
            case_numpy(case, res)
        elif case["kind"] == "collision":
            case_collision(case, res)
        elif case["kind"] == "realistic":
            case_realistic(case, res)
        elif case["kind"] == "liesel":
            case_liesel(case, res)
        else:
            case_simple(case, res)
    except Exception as exc:  # noqa: BLE001
        mech, text = exc_mech(exc)
        if mech is None:
            raise
        res.violation(mech, f"interface call raised\n{text}", case)
    return res


def gen_cases(tier, seed):
    q = tier == "quick"
    cases = [{"kind": "liesel", "idx": i, "seed": seed, "n_calls": 30 if q else 60, "cost": 3}
             for i in range(200 if q else 3000)]
    for i in range(40 if q else 1000):
        cases.append({"kind": "realistic", "idx": 50000 + i, "seed": seed, "n_calls": 12 if q else 25, "cost": 4})
    for i in range(6 if q else 200):
        cases.append({"kind": "edge", "idx": 80000 + i, "seed": seed, "n_calls": 16, "cost": 2})
    for i in range(6 if q else 200):
        cases.append({"kind": "numpy", "idx": 90000 + i, "seed": seed, "n_calls": 12, "cost": 1})
    for i in range(6 if q else 200):
        cases.append({"kind": "collision", "idx": 70000 + i, "seed": seed, "n_calls": 15, "cost": 1})
    for i in range(30 if q else 800):
        cases.append({"kind": "simple", "iface": ["dict", "dataclass", "namedtuple", "dataclass_post"][i % 4], "idx": i,
                      "seed": seed, "n_calls": 25, "cost": 1})
    return cases
