"""C16 — epoch schedules accepted iff valid; Stan warm-up adds up; builder chunk divides.

Oracles: a validity predicate written from the property statement, Stan's window rule
re-derived from the Stan reference manual, and divisibility of the chunk length.
"""

from __future__ import annotations

import itertools
import math

import numpy as np

from vlib.common import CaseResult, liesel_call, rng_for

ID = "C16"
RULE = (
    "exhaustive: all sequences of length<=3 over type(5) x duration{0..4} x thinning{0..3} "
    "through EpochManager(...) and incremental append; sampled: length-4/5 sequences, random "
    "append/next interleavings, random stan_epochs argument tuples, builder chunk + real sampling. "
    "Also: stan_epochs called again after the caller modified the first result; the same builder re-configured and built a second time. non-trivial = sequence invalid for exactly one reason, valid with thinning>1, admissible "
    "stan tuple with >=2 slow windows, or a sampled schedule; distinct by argument hash"
)
REQUIRED = ["accept_iff_valid", "epoch_states_consecutive", "stan_valid", "stan_sum",
            "stan_pattern", "builder_chunk_divides", "builder_sampling_runs"]
ANCHORS = ["goose/epoch.py:EpochManager.append", "goose/epoch.py:EpochManager.next",
           "goose/warmup.py:stan_epochs", "goose/builder.py:EngineBuilder.build"]
EXHAUSTIVE = True
EXHAUSTIVE_SCOPE = "schedules of length<=3 over the 100-letter alphabet (1 010 100 sequences)"
ASSUMPTIONS = ["base_duration=0 is outside the domain (stan_epochs does not terminate)",
               "an empty schedule is neither valid nor invalid (not checked)"]
WORKERS = 16
TIMEOUT = {"quick": 1500, "thorough": 10800}

TYPES = [0, 1, 2, 3, 4]
DURS = [0, 1, 2, 3, 4]
THINS = [0, 1, 2, 3]
ALPHA = [(t, d, k) for t in TYPES for d in DURS for k in THINS]


# ---------------------------------------------------------------- oracle
def reasons(seq) -> list[str]:
    """All reasons why a schedule is invalid, straight from the statement."""
    rs = []
    if not seq:
        return rs
    t0, d0, _ = seq[0]
    if t0 != 0:
        rs.append("first-not-initial")
    seen_post = False
    for i, (t, d, k) in enumerate(seq):
        if t == 0:
            if i > 0:
                rs.append(f"initial-again@{i}")
            if d != 1:
                rs.append(f"initial-duration@{i}")
        if d < 1:
            rs.append(f"duration@{i}")
        if k < 1:
            rs.append(f"thin-low@{i}")
        if k > d and d >= 1:
            rs.append(f"thin-high@{i}")
        if t == 4 and k >= 1 and d >= 1 and k <= d and d % k != 0:
            rs.append(f"thin-div@{i}")
        if t in (1, 2, 3) and seen_post:
            rs.append(f"warmup-after-posterior@{i}")
        if t == 4:
            seen_post = True
    return rs


def valid(seq) -> bool:
    return not reasons(seq)


def first_bad_prefix(seq) -> int:
    """Length of the longest valid prefix."""
    for n in range(1, len(seq) + 1):
        if not valid(seq[:n]):
            return n - 1
    return len(seq)


def mk(cfg):
    from liesel.goose.epoch import EpochConfig, EpochType

    t, d, k = cfg
    return EpochConfig(EpochType(t), d, k, None)


def try_construct(seq):
    from liesel.goose.epoch import EpochManager

    try:
        return EpochManager([mk(c) for c in seq]), None
    except RuntimeError as e:
        return None, e
    except IndexError as e:  # e.g. warm-up check on an empty list
        return None, e


def check_states(res, man, seq, what):
    """Epoch states must carry consecutive indices and start times."""
    t = 0
    i = 0
    ok = True
    while man.has_more():
        st = man.next()
        exp = (i, t, t, 0)
        got = (int(st.nth_epoch), int(st.time_before_epoch), int(st.time), int(st.time_in_epoch))
        cfg = (int(st.config.type), int(st.config.duration), int(st.config.thinning))
        if got != exp or cfg != tuple(seq[i]):
            ok = False
            res.violation("epoch-state", f"{what}: state {i} of {seq}: got {got} cfg {cfg}, "
                          f"expected {exp} cfg {seq[i]}", {"seq": seq})
            break
        t += seq[i][1]
        i += 1
    if ok and i != len(seq):
        ok = False
        res.violation("epoch-state", f"{what}: {i} states for {len(seq)} epochs", {"seq": seq})
    res.mon("epoch_states_consecutive")
    return ok


def check_seq(res, seq, do_states=True):
    """Constructor and incremental append against the predicate."""
    from liesel.goose.epoch import EpochManager

    seq = [tuple(c) for c in seq]
    v = valid(seq)
    man, err = try_construct(seq)
    res.mon("accept_iff_valid")
    if (man is not None) != v:
        rs = reasons(seq)
        res.violation(
            "accept-invalid" if man is not None else "reject-valid",
            f"EpochManager({seq}) {'accepted' if man is not None else 'rejected'}; "
            f"oracle says {'valid' if v else 'invalid ' + str(rs)}; error={err!r}",
            {"seq": seq, "reasons": rs})
        return
    # incremental: each append must succeed exactly while the prefix is valid
    man2 = EpochManager(None)
    nvalid = first_bad_prefix(seq)
    accepted = []
    for i, c in enumerate(seq):
        pre_ok = valid(accepted + [c])
        try:
            man2.append(mk(c))
            ok = True
        except (RuntimeError, IndexError):
            ok = False
        res.mon("accept_iff_valid")
        if ok != pre_ok:
            res.violation("append-" + ("accept-invalid" if ok else "reject-valid"),
                          f"append #{i} {c} after {accepted}: {'accepted' if ok else 'rejected'}",
                          {"seq": seq, "accepted": accepted})
            return
        if ok:
            accepted.append(c)
    if do_states:
        if man is not None:
            check_states(res, man, seq, "ctor")
        # the incrementally built manager holds exactly the accepted configs
        check_states(res, man2, accepted, "append(with rejections)")
    _ = nvalid


# ---------------------------------------------------------------- stan
def stan_admissible(a) -> bool:
    w, p, i, t, b, tp, tw = a
    if min(w, p, i, t, b, tp, tw) < 1:
        return False
    if w < 20 or w < i + t + b:
        return False
    if p % tp != 0 or tp > p:
        return False
    if tw > min(i, t, b):
        return False
    return True


def stan_slow_windows(total: int, base: int) -> list[int]:
    """Stan's rule, independently: window w is the last iff fewer than 3w remain
    (i.e. the *following* window of size 2w would not fit after it)."""
    out = []
    w = base
    left = total
    while True:
        after = left - w
        if after < 2 * w:  # next window (size 2w) does not fit -> stretch current
            out.append(left)
            return out
        out.append(w)
        left = after
        w *= 2


def check_stan(res, a):
    from liesel.goose.epoch import EpochManager
    from liesel.goose.warmup import stan_epochs

    w, p, i, t, b, tp, tw = a
    adm = stan_admissible(a)
    try:
        eps = stan_epochs(w, p, i, t, b, tp, tw)
    except ValueError as e:
        if adm:
            res.violation("stan-raise", f"stan_epochs{tuple(a)} raised {e!r} on admissible args", a)
        else:
            res.ev("stan_inadmissible_raised")
        return
    if not adm:
        res.ev("stan_inadmissible_returned")
        return
    seq = [(int(e.type), int(e.duration), int(e.thinning)) for e in eps]
    res.mon("stan_valid")
    if not valid(seq):
        res.violation("stan-invalid", f"stan_epochs{tuple(a)} returned invalid {seq}: {reasons(seq)}", a)
        return
    try:
        EpochManager(eps)
    except Exception as e:  # noqa: BLE001
        res.violation("stan-rejected-by-manager", f"{seq}: {e!r}", a)
        return
    warm = [c for c in seq if c[0] in (1, 2, 3)]
    res.mon("stan_sum")
    if sum(c[1] for c in warm) != w:
        res.violation("stan-sum", f"stan_epochs{tuple(a)}: warm-up sums to "
                      f"{sum(c[1] for c in warm)} != {w}: {seq}", a)
    slow = stan_slow_windows(w - i - t, b)
    exp = ([(0, 1, 1), (1, i, tw)] + [(2, s, tw) for s in slow] + [(1, t, tw), (4, p, tp)])
    res.mon("stan_pattern")
    if seq != exp:
        res.violation("stan-pattern", f"stan_epochs{tuple(a)} = {seq}, expected {exp}", a)
    if len(slow) >= 2:
        res.nontriv(("stan", len(slow), w, i, t, b, tp, tw))
    # the caller may do what it likes with the returned list: a second call with equal arguments is unaffected
    if (w + p) % 7 == 0:
        eps[-1].duration += 3
        eps[1].thinning = 99
        eps.pop(2)
        again = [(int(e.type), int(e.duration), int(e.thinning)) for e in stan_epochs(w, p, i, t, b, tp, tw)]
        res.mon("stan_pattern")
        if again != exp:
            res.violation("stan-shared-state", f"stan_epochs{tuple(a)} called a second time (after the caller modified the first "
                          f"result) returned {again}, expected {exp}", a)


def gen_stan_args(rng):
    style = rng.random()
    if style < 0.55:
        i = int(rng.integers(1, 200))
        t = int(rng.integers(1, 200))
        b = int(rng.integers(1, 100))
        w = i + t + b + int(rng.integers(0, 3000))
        w = max(w, 20)
    elif style < 0.8:  # near the window boundaries: w - i - t = m*b*(2^j) +- 1
        i = int(rng.integers(1, 50))
        t = int(rng.integers(1, 50))
        b = int(rng.integers(1, 30))
        j = int(rng.integers(0, 6))
        m = int(rng.choice([1, 2, 3]))
        w = i + t + (2 ** (j + 1) - 1) * b + (m - 1) * b * 2 ** j + int(rng.integers(-2, 3))
        w = max(w, 20)
    else:  # arbitrary incl. inadmissible
        w = int(rng.integers(1, 10 ** 5))
        i = int(rng.integers(0, 1000))
        t = int(rng.integers(0, 1000))
        b = int(rng.integers(1, 1000))
    p = int(rng.integers(1, 1000))
    tp = int(rng.choice([1, 1, 2, 3, 5, 7, 20]))
    if rng.random() < 0.7:
        p = tp * max(1, p // tp)
    tw = int(rng.choice([1, 1, 1, 2, 3, 10]))
    return [w, p, i, t, b, tp, tw]


# ---------------------------------------------------------------- builder
def check_builder(res, case):
    import jax.numpy as jnp
    import liesel.goose as gs

    from vlib.probes import ProbeKernel, mk_epochs, total_time

    rng = rng_for(case["seed"], "builder", case["idx"])
    if rng.random() < 0.5:
        from vlib.probes import gen_schedule

        spec = gen_schedule(rng, max_epochs=5, max_dur=12)
        how = "set_epochs"
    else:
        # small stan schedule through set_duration
        term = int(rng.integers(2, 8))
        warm = 75 + term + 25 + int(rng.integers(0, 120))
        post = int(rng.integers(1, 40))
        tp = int(rng.choice([d for d in range(1, post + 1) if post % d == 0]))
        spec = None
        how = "set_duration"
    state = {"a": jnp.zeros(()), "chain": jnp.asarray(0)}
    b = gs.EngineBuilder(seed=int(rng.integers(0, 2 ** 31 - 1)), num_chains=2)
    b.show_progress = False
    b.set_model(gs.DictInterface(lambda s: jnp.asarray(0.0)))
    b.set_initial_values(state)
    with liesel_call(res, f"builder {how}", case):
        if how == "set_epochs":
            eps = mk_epochs(spec)
            b.set_epochs(eps)
        else:
            b.set_duration(warm, post, term_duration=term, thinning_posterior=tp)
        cfgs = [(int(e.type), int(e.duration), int(e.thinning)) for e in b.epochs]
        k = ProbeKernel(["a"], 0, log_len=8)
        b.add_kernel(k)
        eng = b.build()
        chunk = int(eng._jitted_sample_duration)
        res.mon("builder_chunk_divides")
        bad = [c for c in cfgs[1:] if chunk < 1 or c[1] % chunk != 0]
        if bad:
            res.violation("builder-chunk", f"chunk {chunk} does not divide {bad} in {cfgs}", cfgs)
        eng.sample_all_epochs()
        r = eng.get_results()
        n = r.transition_infos.combine_all().unwrap()
        nt = int(np.asarray(next(iter(n.values())).error_code).shape[1])
        res.mon("builder_sampling_runs")
        exp = sum(c[1] for c in cfgs[1:])
        if nt != exp:
            res.violation("builder-transitions", f"{nt} transitions stored, schedule has {exp}", cfgs)
        res.nontriv(("builder", how, tuple(cfgs), chunk))
        # the same builder re-configured with another schedule (through the other setter) and built again
        how2 = "set_duration" if how == "set_epochs" else "set_epochs"
        if how2 == "set_duration":
            term2 = int(rng.integers(2, 8))
            b.set_duration(75 + term2 + 25 + int(rng.integers(0, 60)) * 3 + 7, int(rng.integers(1, 30)) * 3 + 1, term_duration=term2)
        else:
            from vlib.probes import gen_schedule as _gs

            b.set_epochs(mk_epochs(_gs(rng, max_epochs=4, max_dur=9)))
        if case["idx"] % 2:
            # ... or with the same setter again
            b.set_duration(200 + int(rng.integers(0, 50)), 50 + int(rng.integers(0, 50)))
            how2 = "set_duration (twice)"
        cfgs2 = [(int(e.type), int(e.duration), int(e.thinning)) for e in b.epochs]
        eng2 = b.build()
        chunk2 = int(eng2._jitted_sample_duration)
        res.mon("builder_chunk_divides")
        bad2 = [c for c in cfgs2[1:] if chunk2 < 1 or c[1] % chunk2 != 0]
        if bad2:
            res.violation("builder-chunk", f"second build() of the same builder after {how2}: chunk {chunk2} does not divide {bad2} in "
                          f"{cfgs2} (first schedule {cfgs}, chunk {chunk})", cfgs2)
        else:
            eng2.sample_all_epochs()
            n2 = eng2.get_results().transition_infos.combine_all().unwrap()
            nt2 = int(np.asarray(next(iter(n2.values())).error_code).shape[1])
            res.mon("builder_sampling_runs")
            if nt2 != sum(c[1] for c in cfgs2[1:]):
                res.violation("builder-transitions", f"second build: {nt2} transitions stored, schedule has {sum(c[1] for c in cfgs2[1:])}", cfgs2)
        if res.sample is None:
            res.sample = {"builder": how, "epochs": cfgs, "chunk": chunk}
    _ = total_time, math


# ---------------------------------------------------------------- cases
def gen_cases(tier, seed):
    cases = []
    # exhaustive length<=3, partitioned by the first two letters' index modulo
    nparts = 32
    for p in range(nparts):
        cases.append({"kind": "exh", "part": p, "nparts": nparts, "maxlen": 3, "cost": 5})
    nr = 6 if tier == "quick" else 256
    per = 4000 if tier == "quick" else 16000
    for i in range(nr):
        cases.append({"kind": "rand", "idx": i, "n": per, "seed": seed, "cost": 3})
    ns = 8 if tier == "quick" else 256
    pers = 3000 if tier == "quick" else 16000
    for i in range(ns):
        cases.append({"kind": "stan", "idx": i, "n": pers, "seed": seed, "cost": 2})
    nb = 24 if tier == "quick" else 800
    for i in range(nb):
        cases.append({"kind": "builder", "idx": i, "seed": seed, "cost": 1})
    if tier == "thorough":
        # length 4 exhaustively over a reduced alphabet
        for p in range(32):
            cases.append({"kind": "exh4", "part": p, "nparts": 32, "cost": 8})
    return cases


RED = [(t, d, k) for t in TYPES for d in (0, 1, 2, 4) for k in (0, 1, 2)]


def run_case(case):
    res = CaseResult(case)
    kind = case["kind"]
    if kind == "exh":
        n = 0
        part, nparts = case["part"], case["nparts"]
        idx = 0
        for L in range(1, case["maxlen"] + 1):
            for seq in itertools.product(ALPHA, repeat=L):
                idx += 1
                if idx % nparts != part:
                    continue
                n += 1
                check_seq(res, seq, do_states=(L <= 2 or valid(seq)))
                rs = reasons(seq)
                if len(rs) == 1 or (not rs and any(c[2] > 1 for c in seq)):
                    res.nontriv(("seq", seq))
        res.evals = n
        res.ev("exhaustive_sequences", n)
        res.sample = {"exhaustive_part": part, "sequences": n,
                      "example": [[4, 2, 2]]}
    elif kind == "exh4":
        n = 0
        part, nparts = case["part"], case["nparts"]
        idx = 0
        for seq in itertools.product(RED, repeat=4):
            idx += 1
            if idx % nparts != part:
                continue
            # only sequences with a valid first element are interesting at length 4
            if seq[0] != (0, 1, 1):
                if idx % (nparts * 50) != part:
                    continue
            n += 1
            check_seq(res, seq, do_states=valid(seq))
            rs = reasons(seq)
            if len(rs) == 1 or (not rs and any(c[2] > 1 for c in seq)):
                res.nontriv(("seq", seq))
        res.evals = n
        res.ev("length4_sequences", n)
    elif kind == "rand":
        rng = rng_for(case["seed"], "rand", case["idx"])
        from liesel.goose.epoch import EpochManager

        for j in range(case["n"]):
            L = int(rng.integers(4, 7))
            # biased towards valid prefixes
            seq = [(0, 1, 1)] if rng.random() < 0.9 else [ALPHA[int(rng.integers(len(ALPHA)))]]
            for _ in range(L - 1):
                if rng.random() < 0.8:
                    t = int(rng.choice([1, 2, 3, 4]))
                    d = int(rng.integers(1, 9))
                    k = int(rng.integers(1, d + 1)) if rng.random() < 0.8 else int(rng.integers(0, 10))
                    seq.append((t, d, k))
                else:
                    seq.append((int(rng.integers(0, 5)), int(rng.integers(0, 9)), int(rng.integers(0, 5))))
            check_seq(res, seq, do_states=True)
            rs = reasons(seq)
            if len(rs) == 1 or (not rs and any(c[2] > 1 for c in seq)):
                res.nontriv(("seq", tuple(seq)))
            # interleaving of append and next on a valid schedule
            if not rs and j % 4 == 0:
                man = EpochManager(None)
                t = 0
                nxt = 0
                appended = 0
                ok = True
                while nxt < len(seq) and ok:
                    if appended < len(seq) and (appended == nxt or rng.random() < 0.5):
                        man.append(mk(seq[appended]))
                        appended += 1
                    else:
                        if not man.has_more():
                            ok = False
                            res.violation("has-more", f"has_more False with {appended} appended, {nxt} taken", seq)
                            break
                        st = man.next()
                        got = (int(st.nth_epoch), int(st.time_before_epoch), int(st.time), int(st.time_in_epoch))
                        if got != (nxt, t, t, 0):
                            ok = False
                            res.violation("epoch-state", f"interleaved append/next: state {nxt} of {seq}: {got} "
                                          f"expected {(nxt, t, t, 0)}", seq)
                        t += seq[nxt][1]
                        nxt += 1
                res.mon("epoch_states_consecutive")
                if ok and man.has_more() != (appended > nxt):
                    res.violation("has-more", "has_more wrong at end", seq)
        res.evals = case["n"]
        res.sample = {"random_sequence": seq, "valid": valid(seq), "reasons": reasons(seq)}
    elif kind == "stan":
        rng = rng_for(case["seed"], "stan", case["idx"])
        for _ in range(case["n"]):
            a = gen_stan_args(rng)
            check_stan(res, a)
        res.evals = case["n"]
        res.sample = {"stan_args(warmup,post,init,term,base,thin_post,thin_warm)": a,
                      "admissible": stan_admissible(a)}
    elif kind == "builder":
        res.evals = 1
        check_builder(res, case)
    return res
