"""C13 — Gibbs kernels draw from the exact full conditional.

Oracle: the model's own joint log-density along the variable (interface.log_prob o update_state),
normalised numerically; the inverse-gamma closed form is *not* the oracle."""

from __future__ import annotations

import numpy as np

from vlib import stats as vs
from vlib.common import CaseResult, exc_mech, rng_for

ID = "C13"
RULE = (
    "tau2_gibbs_kernel: penalties identity / random full rank / RW1 / RW2 (rank deficient), dimensions 2-12, "
    "hyper-parameters a,b over three decades, coefficient vectors from the prior, from the null space and far "
    "in the tails, DistRegBuilder models with a response and hand-built smooth groups; "
    "finite_discrete_gibbs_kernel: 2-6 outcomes, prior probabilities incl. near 0, FiniteDiscrete and Bernoulli "
    "priors, impossible outcomes (probability exactly 0), Normal and Poisson downstream likelihoods and latent "
    "(non-observed) variables depending on the discrete variable; kernel state handed in differs from the model state at "
    "kernel construction. 20 000 draws per "
    "case through kernel.transition under vmap; two-stage rule (|z|>4.5, confirmed at 4x N). Also: penalties at overall scales 1e-6..1e3; fractional outcome grids with integer-typed current values; joint log-densities outside the float32 exp range (about -500 / +150); one-hot vector-valued variables with 2-D outcome sets. Round 5: user-defined log_prob node; prior scale b ~ 1e-9 with all-zero coefficients. non-trivial = "
    "rank-deficient penalty or beta'K beta > 1; discrete conditional differing from the prior by > 0.1 in total "
    "variation; distinct by parameter hash"
)
REQUIRED = ["tau2_ks_vs_numeric_conditional", "tau2_log_moments", "discrete_category_frequencies", "two_stage_statistics"]
ANCHORS = ["model/distreg.py:tau2_gibbs_kernel", "model/goose.py:finite_discrete_gibbs_kernel", "goose/gibbs.py:GibbsKernel.transition"]
ASSUMPTIONS = ["jax.random.gamma / categorical are trusted samplers",
               "a finite-sample decision: 'held' means no deviation detectable at N=20 000 (KS flags CDF discrepancies >~ 0.018)"]
WORKERS = 16
TIMEOUT = {"quick": 1500, "thorough": 10800}


def diff_penalty(m, order):
    D = np.eye(m)
    for _ in range(order):
        D = np.diff(D, axis=0)
    return D.T @ D


def build_tau2_model(rng, how, idx=0):
    """returns (model, group, desc)"""
    import jax.numpy as jnp
    import liesel.model as lsl
    import tensorflow_probability.substrates.jax.distributions as tfd
    from liesel.distributions import MultivariateNormalDegenerate

    m = int(rng.integers(2, 13))
    style = str(rng.choice(["identity", "full", "rw1", "rw2"]))
    if style in ("rw1", "rw2") and m < 4:
        style = "full"
    if style == "identity":
        K = np.eye(m)
    elif style == "full":
        A = rng.normal(size=(m, m))
        K = A @ A.T / m + 0.3 * np.eye(m)
    else:
        K = diff_penalty(m, 1 if style == "rw1" else 2)
    # the overall scale of the penalty is the user's business (1e-6 * D'D is the same smoothness prior with tau2 rescaled)
    pen_scale = [1.0, 1e-6, 1.0, 1e-4, 1e3][idx % 5]
    K = (K * pen_scale).astype(np.float32)
    r = int(np.linalg.matrix_rank(K))
    a = float(np.round(np.exp(rng.uniform(np.log(0.05), np.log(20.0))), 3))
    b = float(np.round(np.exp(rng.uniform(np.log(0.005), np.log(5.0))), 4))
    bstyle = str(rng.choice(["prior", "null", "tail", "small"]))
    if idx % 7 == 3:
        # a very small prior scale with coefficients that carry no penalty (all zero, the DistRegBuilder start value):
        # the conditional is IG(a + rank/2, b) with b ~ 1e-9. (Null-space coefficients of size 3 are not used here: in
        # float32 their quadratic form is rounding noise of the order of b itself, in the kernel and in the model alike.)
        b = float(10 ** rng.uniform(-10, -8))
        bstyle = "zero"
    lam, Q = np.linalg.eigh(K.astype(np.float64))
    if bstyle == "null" and r < m:
        beta = Q[:, : m - r] @ rng.normal(size=m - r) * 3
    elif bstyle == "zero":
        beta = np.zeros(m)
    elif bstyle == "tail":
        beta = rng.normal(size=m) * 8
    elif bstyle == "small":
        beta = rng.normal(size=m) * 0.05
    else:
        beta = rng.normal(size=m)
    beta = beta.astype(np.float32)
    desc = {"m": m, "penalty": style, "penalty_scale": pen_scale, "rank": r, "a": a, "b": b, "beta_style": bstyle,
            "bKb": float(beta.astype(np.float64) @ K.astype(np.float64) @ beta.astype(np.float64)), "how": how}
    if how == "distreg":
        import tensorflow_probability.substrates.jax.bijectors as tfb

        n = 12
        X = rng.normal(size=(n, m)).astype(np.float32)
        y = rng.normal(size=n).astype(np.float32)
        drb = lsl.DistRegBuilder().add_response(y, tfd.Normal)
        drb.add_predictor("loc", tfb.Identity).add_predictor("scale", tfb.Exp)
        drb.add_np_smooth(X, K, a, b, "loc")
        drb.add_p_smooth(np.ones((n, 1), np.float32), 0.0, 10.0, "scale")
        model = drb.build_model()
        g = model.groups()["loc_np0"]
        g["beta"].value = jnp.asarray(beta)
        return model, g, desc
    # hand-built group, as a user would write it
    K_var = lsl.Var(jnp.asarray(K), name="K")
    a_var = lsl.Var(jnp.asarray(a, jnp.float32), name="a")
    b_var = lsl.Var(jnp.asarray(b, jnp.float32), name="b")
    rank_var = lsl.Var(r, name="rank")
    tau2 = lsl.param(jnp.asarray(1.0, jnp.float32), lsl.Dist(tfd.InverseGamma, concentration=a_var, scale=b_var), name="tau2")
    bdist = lsl.Dist(MultivariateNormalDegenerate.from_penalty, loc=0.0, var=tau2, pen=K_var, rank=rank_var)
    beta_var = lsl.param(jnp.asarray(beta), bdist, name="beta")
    g = lsl.Group("smooth", beta=beta_var, tau2=tau2, rank=rank_var, K=K_var, a=a_var, b=b_var)
    extra = []
    if rng.random() < 0.5:
        # a likelihood that depends on beta only: must not change the conditional of tau2
        yv = lsl.obs(jnp.asarray(rng.normal(size=m).astype(np.float32)), lsl.Dist(tfd.Normal, loc=beta_var, scale=1.0), name="y")
        extra.append(yv)
        desc["with_likelihood"] = True
    model = lsl.GraphBuilder().add(beta_var, *extra).build_model()
    return model, g, desc


def numeric_cdf_logscale(f, lo=-30.0, hi=30.0):
    """f: vectorised log-density as a function of log(tau2) incl. Jacobian. Returns (grid, cdf)."""
    coarse = np.linspace(lo, hi, 4001)
    fc = f(coarse)
    fc = np.where(np.isfinite(fc), fc, -np.inf)
    mx = fc.max()
    keep = np.where(fc > mx - 50)[0]
    a, b = coarse[max(keep[0] - 1, 0)], coarse[min(keep[-1] + 1, len(coarse) - 1)]
    grid = np.linspace(a, b, 20001)
    fg = f(grid)
    fg = np.where(np.isfinite(fg), fg, -np.inf)
    dens = np.exp(fg - fg.max())
    cdf = np.concatenate([[0.0], np.cumsum((dens[1:] + dens[:-1]) / 2 * np.diff(grid))])
    cdf /= cdf[-1]
    return grid, cdf, dens / np.trapz(dens, grid)


def case_tau2(case, res):
    import jax
    import jax.numpy as jnp
    import liesel.goose as gs
    import liesel.model as lsl

    stage2 = "stage2_of" in case
    rng = rng_for(case["seed"], "c13-tau2", case["idx"])       # model is the same in both stages
    model, g, desc = build_tau2_model(rng, case["how"], case["idx"])
    iface = gs.LieselInterface(model)
    kernel = lsl.tau2_gibbs_kernel(g)
    kernel.set_model(iface)
    state = model.state
    if case["idx"] % 2 == 1:
        # the hyper-parameters and coefficients in the *state handed to the kernel* differ from those the model
        # held when the kernel was built (as in any engine run where they are sampled or re-assigned)
        a2 = float(np.round(desc["a"] * np.exp(rng.uniform(-1.2, 1.2)), 3))
        b2 = desc["b"] * float(np.exp(rng.uniform(-1.5, 1.5)))
        b2 = float(np.round(b2, 4)) if b2 > 1e-3 else float(b2)
        beta2 = np.asarray(model.vars[g["beta"].name].value) * float(rng.choice([0.3, 2.5]))
        if desc["beta_style"] == "zero":
            beta2 = beta2 * 0.0
        state = iface.update_state({g["a"].name: jnp.asarray(a2, jnp.float32), g["b"].name: jnp.asarray(b2, jnp.float32),
                                    g["beta"].name: jnp.asarray(beta2, jnp.float32)}, state)
        K64 = np.asarray(model.vars[g["K"].name].value, np.float64)
        desc.update({"a": a2, "b": b2, "bKb": float(beta2.astype(np.float64) @ K64 @ beta2.astype(np.float64)),
                     "state_changed_after_kernel_built": True})
    N = case["n"]
    key0 = jax.random.PRNGKey(case["draw_seed"])
    name = g["tau2"].name

    def one(k):
        out = kernel.transition(k, {}, state, None)
        return iface.extract_position([name], out.model_state)[name]

    draws = np.asarray(jax.jit(jax.vmap(one))(jax.random.split(key0, N)), np.float64)
    if not np.all(np.isfinite(draws)) or np.any(draws <= 0):
        res.violation("tau2-draw-invalid", f"non-positive or non-finite tau2 draws: {draws[:5].tolist()}", desc)
        return

    lp = jax.jit(jax.vmap(lambda v: iface.log_prob(iface.update_state({name: v}, state))))

    def f(logt):
        t = np.exp(logt)
        out = []
        for i in range(0, len(t), 5000):
            out.append(np.asarray(lp(jnp.asarray(t[i:i + 5000], jnp.float32)), np.float64))
        return np.concatenate(out) + logt

    grid, cdf, dens = numeric_cdf_logscale(f)
    x = np.log(draws)
    d, p = vs.ks_numeric(x, grid, cdf)
    m1 = np.trapz(grid * dens, grid)
    v1 = np.trapz((grid - m1) ** 2 * dens, grid)
    m4 = np.trapz((grid - m1) ** 4 * dens, grid)
    z_mean = (x.mean() - m1) / np.sqrt(v1 / N)
    z_var = (np.mean((x - m1) ** 2) - v1) / np.sqrt(max(m4 - v1 ** 2, 1e-300) / N)
    res.mon("tau2_ks_vs_numeric_conditional")
    res.mon("tau2_log_moments", 2)
    st = {"ks": vs.z_from_p(p), "mean_log_tau2": float(z_mean), "var_log_tau2": float(z_var)}
    from scipy import stats as sst
    p_closed = sst.kstest(draws, sst.invgamma(desc["a"] + desc["rank"] / 2, scale=desc["b"] + desc["bKb"] / 2).cdf).pvalue
    desc2 = dict(desc, N=N, ks_D=float(d), ks_p=float(p), ks_p_closed_form_IG=float(p_closed))
    res.extra = {"stats": st, "flags": vs.flags(st), "mech": "tau2-conditional", "desc": desc2}
    if desc["rank"] < desc["m"] or desc["bKb"] > 1:
        res.nontriv(("tau2", str(desc)))
    res.sample = desc2
    res.evals = N
    _ = stage2


def case_discrete(case, res):
    import jax
    import jax.numpy as jnp
    import liesel.goose as gs
    import liesel.model as lsl
    import tensorflow_probability.substrates.jax.distributions as tfd

    rng = rng_for(case["seed"], "c13-disc", case["idx"])
    kind = str(rng.choice(["finite", "finite", "bernoulli"]))
    lik = str(rng.choice(["normal", "poisson", "none"]))
    if case["idx"] % 5 == 3:
        # the joint log-density is far outside the range in which exp() is finite in float32:
        # many observations (about -500) or a sharply concentrated likelihood (about +150)
        lik = ["normal_many", "normal_sharp"][(case["idx"] // 5) % 2]
    if case["idx"] % 5 == 4:
        kind = "onehot"
    if kind == "finite":
        K = int(rng.integers(2, 7))
        outcomes = np.sort(rng.choice(np.arange(0, 9), size=K, replace=False)).astype(np.float32)
        pr = rng.dirichlet(np.ones(K) * 0.7)
        pr = np.maximum(pr, 1e-3)
        if rng.random() < 0.3:
            pr[int(rng.integers(K))] = 1e-4
        pr = (pr / pr.sum()).astype(np.float32)
        if rng.random() < 0.3 and K >= 3:
            pr[int(rng.integers(K))] = 0.0          # an impossible outcome (log-probability -inf)
            pr = (pr / pr.sum()).astype(np.float32)
        init = jnp.asarray(outcomes[0])
        if case["idx"] % 2 == 0:
            # a fractional grid (0, .25, .5, ...); the current value may be an integer-typed member of it (Var(0, ...))
            outcomes = (outcomes * 0.25).astype(np.float32)
            whole = [o for o in outcomes if float(o).is_integer()]
            init = jnp.asarray(outcomes[0])
            if whole:
                init = int(whole[0]) if rng.random() < 0.5 else jnp.asarray(int(whole[0]), jnp.int32)
                res.ev("integer_typed_current_value_on_fractional_grid")
        grid = lsl.Var(jnp.asarray(outcomes), name="grid")
        prior = lsl.Dist(tfd.FiniteDiscrete, outcomes=grid, probs=jnp.asarray(pr))
        kv = lsl.Var(init, prior, name="k")
        outs = None
    elif kind == "onehot":
        # a vector-valued discrete variable: one-hot indicator with the rows of the identity as outcome set
        K = int(rng.integers(3, 5))
        pr = rng.dirichlet(np.ones(K)).astype(np.float32)
        pr = np.maximum(pr, 0.02)
        pr = (pr / pr.sum()).astype(np.float32)
        outcomes = np.eye(K, dtype=np.float32)
        levels = np.round(rng.normal(0, 1.5, size=K), 2).astype(np.float32)
        prior = lsl.Dist(tfd.OneHotCategorical, probs=jnp.asarray(pr), dtype=jnp.float32)
        kv = lsl.Var(jnp.asarray(outcomes[0]), prior, name="k")
        outs = jnp.asarray(outcomes)
        lik = "onehot_normal"
    else:
        p1 = float(np.round(rng.uniform(0.02, 0.98), 3)) if rng.random() < 0.8 else float(rng.choice([0.0, 1.0]))
        outcomes = np.array([0, 1], np.int32)
        pr = np.array([1 - p1, p1])
        prior = lsl.Dist(tfd.Bernoulli, probs=lsl.Value(jnp.asarray(p1, jnp.float32)))
        kv = lsl.Var(jnp.asarray(1, jnp.int32), prior, name="k")
        outs = [0, 1]
    nodes = [kv]
    n = int(rng.integers(1, 6))
    c = float(np.round(rng.uniform(0.2, 1.5), 2))
    if lik == "onehot_normal":
        y = rng.normal(float(levels.mean()), 1.2, size=n).astype(np.float32)
        mu = lsl.Var(lsl.Calc(lambda k: jnp.sum(k * jnp.asarray(levels)), kv), name="mu")
        nodes.append(lsl.obs(jnp.asarray(y), lsl.Dist(tfd.Normal, loc=mu, scale=1.0), name="y"))
    elif lik in ("normal_many", "normal_sharp"):
        n = 300 if lik == "normal_many" else 40
        sd = 0.9 if lik == "normal_many" else 0.02
        centre = float(rng.choice(outcomes)) * c
        y = rng.normal(centre, sd if lik == "normal_many" else 0.004, size=n).astype(np.float32)
        mu = lsl.Var(lsl.Calc(lambda k: jnp.asarray(k, jnp.float32) * c, kv), name="mu")
        nodes.append(lsl.obs(jnp.asarray(y), lsl.Dist(tfd.Normal, loc=mu, scale=sd), name="y"))
    elif lik == "normal":
        y = rng.normal(outcomes.mean() * c, 1.5, size=n).astype(np.float32)
        mu = lsl.Var(lsl.Calc(lambda k: jnp.asarray(k, jnp.float32) * c, kv), name="mu")
        nodes.append(lsl.obs(jnp.asarray(y), lsl.Dist(tfd.Normal, loc=mu, scale=float(rng.choice([0.7, 1.5, 4.0]))), name="y"))
    elif lik == "poisson":
        y = rng.poisson(2.0, size=n).astype(np.float32)
        rate = lsl.Var(lsl.Calc(lambda k: 0.5 + jnp.asarray(k, jnp.float32) * c, kv), name="rate")
        nodes.append(lsl.obs(jnp.asarray(y), lsl.Dist(tfd.Poisson, rate=rate), name="y"))
    if rng.random() < 0.5:
        # a latent (non-observed) parameter whose prior depends on the discrete variable
        sc = lsl.Var(lsl.Calc((lambda k: 0.5 + 0.4 * jnp.argmax(k).astype(jnp.float32)) if kind == "onehot" else
                              (lambda k: 0.5 + 0.4 * jnp.asarray(k, jnp.float32)), kv), name="lat_scale")
        lat = lsl.param(jnp.asarray(rng.normal(size=2).astype(np.float32) * 2.0), lsl.Dist(tfd.Normal, loc=0.0, scale=sc), name="lat")
        nodes.append(lat)
        lik = lik + "+latent"
    gb_ = lsl.GraphBuilder().add(*nodes)
    ynode = next((n_ for n_ in nodes if n_.name == "y"), None)
    if case["idx"] % 5 == 2 and ynode is not None:
        # a user-defined log-probability (tempered posterior): the model's joint density is what this node says
        gb_.log_prob_node = lsl.Calc(lambda pk, ly: jnp.sum(pk) + 0.2 * jnp.sum(ly), kv.dist_node, ynode.dist_node, _name="tempered")
        lik = lik + "+user_log_prob"
    model = gb_.build_model()
    kernel = lsl.finite_discrete_gibbs_kernel("k", model, outcomes=outs) if hasattr(lsl, "finite_discrete_gibbs_kernel") else None
    if kernel is None:
        from liesel.model.goose import finite_discrete_gibbs_kernel
        kernel = finite_discrete_gibbs_kernel("k", model, outcomes=outs)
    iface = gs.LieselInterface(model)
    kernel.set_model(iface)
    state = model.state
    changed = False
    if case["idx"] % 2 == 1 and any(n_.name == "y" for n_ in nodes):
        # the state handed to the kernel differs from what the model held when the kernel was built (new data and,
        # where present, a new value of the latent parameter) - as in any engine run
        upd = {"y": jnp.asarray(np.asarray(model.vars["y"].value) + rng.normal(0, 1.0, size=n).astype(np.float32)
                               if "normal" in lik else rng.poisson(3.0, size=n).astype(np.float32))}
        if "lat" in model.vars:
            upd["lat"] = jnp.asarray(rng.normal(size=2).astype(np.float32) * 3.0)
        state = iface.update_state(upd, state)
        changed = True
        res.ev("discrete_state_changed_after_kernel_built")
    # exact conditional from the model's own joint density
    lps = np.array([float(iface.log_prob(iface.update_state({"k": jnp.asarray(o)}, state))) for o in outcomes], np.float64)
    lps = np.where(np.isnan(lps), -np.inf, lps)
    probs = np.exp(lps - lps[np.isfinite(lps)].max())
    probs /= probs.sum()
    N = case["n"]

    def one(key):
        out = kernel.transition(key, {}, state, None)
        return iface.extract_position(["k"], out.model_state)["k"]

    draws = np.asarray(jax.jit(jax.vmap(one))(jax.random.split(jax.random.PRNGKey(case["draw_seed"]), N)))
    desc = {"prior": kind, "outcomes": outcomes.tolist(), "prior_probs": np.round(pr, 5).tolist(), "likelihood": lik, "n_obs": n,
            "conditional": np.round(probs, 5).tolist(), "N": N, "state_changed_after_kernel_built": changed}
    st = {}
    res.mon("discrete_category_frequencies", len(outcomes))
    if draws.shape != (N,) + outcomes.shape[1:]:
        res.violation("discrete-draw-outside-outcomes", f"a draw has shape {draws.shape[1:]}, the members of the outcome set have "
                      f"shape {outcomes.shape[1:]}", desc)
        return
    o2 = np.asarray(outcomes).reshape(len(outcomes), -1)
    d2 = draws.reshape(N, -1)
    which = np.full(N, -1)
    for j in range(len(o2)):
        which[np.all(d2 == o2[j], axis=1)] = j
    if np.any(which < 0):
        res.violation("discrete-draw-outside-outcomes", f"draws outside the outcome set: {np.unique(d2[which < 0], axis=0)[:5].tolist()}", desc)
        return
    for j, o in enumerate(outcomes):
        cnt = int(np.sum(which == j))
        pj = probs[j]
        if N * pj * (1 - pj) > 9:
            st[f"category|{j}"] = float((cnt - N * pj) / np.sqrt(N * pj * (1 - pj)))
        elif pj < 1e-9 and cnt > 0:
            st[f"category|{j}"] = np.inf
    res.extra = {"stats": st, "flags": vs.flags(st), "mech": "discrete-conditional", "desc": desc}
    tv = 0.5 * np.abs(probs - pr / pr.sum()).sum()
    if tv > 0.1:
        res.nontriv(("disc", str(desc["outcomes"]), str(desc["prior_probs"]), lik, n))
    res.sample = desc
    res.evals = N


def run_case(case):
    res = CaseResult(case)
    try:
        (case_tau2 if case["kind"] == "tau2" else case_discrete)(case, res)
    except Exception as exc:  # noqa: BLE001
        mech, text = exc_mech(exc)
        if mech is None:
            raise
        res.violation(mech, f"raised\n{text}", case)
    return res


def gen_cases(tier, seed):
    q = tier == "quick"
    cases = []
    for i in range(16 if q else 1200):
        cases.append({"kind": "tau2", "idx": i, "seed": seed, "how": "distreg" if i % 3 == 0 else "manual", "n": 20000,
                      "draw_seed": (seed * 7919 + i * 31 + 1) % (2 ** 31 - 1), "cost": 6})
    for i in range(16 if q else 1200):
        cases.append({"kind": "discrete", "idx": 100000 + i, "seed": seed, "n": 20000,
                      "draw_seed": (seed * 7919 + i * 37 + 5) % (2 ** 31 - 1), "cost": 3})
    return cases


def stage2(case):
    c = dict(case)
    c["stage2_of"] = case["idx"]
    c["n"] = case["n"] * 4
    c["draw_seed"] = (case["draw_seed"] * 48271 + 12345) % (2 ** 31 - 1)
    return c


def finalize(ctx):
    vs.two_stage_finalize(ctx, stage2, what="conditional-distribution statistic")
