"""C04 — every built-in kernel leaves the target distribution invariant.

Joint-distribution (Geweke / SBC) test: theta0 ~ prior, y ~ p(y | theta0) per chain, so theta0 is an exact
posterior draw given y.  After T fixed-tuning transitions targeting p(theta | y), (theta_T, y) must have the
prior-predictive joint law: E[g(theta_T, y) - g(theta_0, y)] = 0 for every g and theta_T ~ prior marginally."""

from __future__ import annotations

import numpy as np
from scipy import stats as sst

from vlib import stats as vs
from vlib.common import CaseResult, exc_mech, rng_for
from vlib.probes import mk_epochs

ID = "C04"
RULE = (
    "kernel configurations {RW, HMC, NUTS, IWLS (autodiff Hessian / user chol_info_fn), MH with an asymmetric "
    "proposal and its correction, user Gibbs (conjugate), tau2 Gibbs, finite-discrete Gibbs} and sequences over "
    "disjoint blocks, on dict models (normal-normal, normal with unknown mean and log-scale, logistic and Poisson "
    "regression) and Liesel graph models (regression with Exp-transformed inverse-gamma variance, full-rank "
    "penalised smooth with tau2, finite-discrete mixture, a Uniform(0, upper) variable under its parameter-dependent "
    "default bijector with `upper` sampled too); two independent blocks with kernels of the same type (cross-moment "
    "statistics); a variance sampled on its original scale (NaN density outside the support); thousands of independent chains per configuration, "
    "T in {1,5,20} fixed-tuning transitions (burn-in epoch), per-chain data. Two-stage rule on paired z and KS "
    "statistics. Also: rank-deficient smooth with a proper prior on the null direction; hierarchical mixture (prior scale of a parameter depends on the discrete variable); schedules run as five jitted chunks over a burn-in and a posterior epoch. Round 5: a user Gibbs step reading a helper Calc from the model state. non-trivial = configuration whose chains actually moved (move rate > 0.05 and mean |theta_T - "
    "theta_0| > 0.1 prior sd); distinct by configuration name x T"
)
REQUIRED = ["paired_moment_statistics", "ks_against_prior", "two_stage_statistics", "chains_moved"]
ANCHORS = ["goose/nuts.py:NUTSKernel._standard_transition", "goose/hmc.py:HMCKernel._standard_transition",
           "goose/iwls.py:IWLSKernel._standard_transition", "goose/rw.py:RWKernel._standard_transition",
           "goose/mh_kernel.py:MHKernel._standard_transition", "goose/gibbs.py:GibbsKernel.transition",
           "goose/kernel_sequence.py:KernelSequence.transition", "goose/mh.py:mh_step"]
ASSUMPTIONS = [
    "a finite-sample decision: 'held' = no deviation detectable at this N; the smallest detectable standardised "
    "bias is reported in evidence (z=4.5 at N chains: 4.5/sqrt(N) paired-difference sd)",
    "blackjax leapfrog/NUTS transitions and jax.random samplers are trusted primitives",
]
WORKERS = 8
THREADS = 2
TIMEOUT = {"quick": 2400, "thorough": 10800}


# ------------------------------------------------------------------ configurations
def asym_proposal(key_name, drift=0.6):
    """x' ~ N(x + s*tanh(x)*drift, s^2): asymmetric; correction log q(x|x') - log q(x'|x)."""
    import jax
    import jax.numpy as jnp
    import liesel.goose as gs

    def prop(key, state, s):
        x = state[key_name]
        mf = x + s * drift * jnp.tanh(x)
        xp = mf + s * jax.random.normal(key, jnp.shape(x))
        mb = xp + s * drift * jnp.tanh(xp)
        corr = jnp.sum(-0.5 * ((x - mb) / s) ** 2 + 0.5 * ((xp - mf) / s) ** 2)
        return gs.MHProposal({key_name: xp}, corr)
    return prop


class DictCfg:
    """Dictionary-state model: params + per-chain data in the state."""

    def __init__(self, name):
        self.name = name

    def build(self, rng, N, T, seed):
        import jax
        import jax.numpy as jnp
        import liesel.goose as gs
        from liesel.goose.engine import Engine
        from liesel.goose.kernel_sequence import KernelSequence

        th0, data = self.prior_predictive(rng, N)
        iface = gs.DictInterface(self.log_prob)
        states = {k: jnp.asarray(v, jnp.float32) for k, v in {**th0, **data}.items()}
        kernels = self.kernels()
        for i, k in enumerate(kernels):
            k.set_model(iface)
            k.identifier = f"kernel_{i:02d}"
        eng = Engine(seeds=jax.random.split(jax.random.PRNGKey(seed), N), model_states=states,
                     kernel_sequence=KernelSequence(kernels), epoch_configs=mk_epochs(schedule(T, getattr(self, "chunked", False))[0]),
                     jitted_sample_duration=schedule(T, getattr(self, "chunked", False))[1], model=iface, position_keys=list(th0), show_progress=False)
        return eng, th0, data

    def final(self, eng, th0):
        pos = eng.get_results().positions.combine_all().unwrap()
        return {k: np.asarray(pos[k][:, -1], np.float64) for k in th0}, eng.get_results()


class NormalNormal(DictCfg):
    n = 5
    s0 = 2.0

    def __init__(self, name, kern):
        super().__init__(name)
        self.kern = kern

    def prior_predictive(self, rng, N):
        mu = rng.normal(0, self.s0, N)
        y = mu[:, None] + rng.normal(size=(N, self.n))
        return {"mu": mu}, {"y": y}

    def log_prob(self, s):
        import jax.numpy as jnp

        return -0.5 * (s["mu"] / self.s0) ** 2 - 0.5 * jnp.sum((s["y"] - s["mu"]) ** 2)

    def kernels(self):
        import jax
        import jax.numpy as jnp
        import liesel.goose as gs

        k = self.kern
        if k == "rw":
            return [gs.RWKernel(["mu"], initial_step_size=0.9)]
        if k == "hmc":
            return [gs.HMCKernel(["mu"], initial_step_size=0.35, initial_inverse_mass_matrix=jnp.ones(1), num_integration_steps=3)]
        if k == "nuts":
            return [gs.NUTSKernel(["mu"], initial_step_size=0.4, initial_inverse_mass_matrix=jnp.ones(1), max_treedepth=4)]
        if k == "iwls":
            return [gs.IWLSKernel(["mu"], initial_step_size=1.1)]
        if k == "mh_asym":
            return [gs.MHKernel(["mu"], asym_proposal("mu"), initial_step_size=0.8)]
        if k == "gibbs":
            n, s0 = self.n, self.s0

            def tfn(key, state):
                prec = n + 1 / s0 ** 2
                mean = jnp.sum(state["y"]) / prec
                return {"mu": mean + jax.random.normal(key) / jnp.sqrt(prec)}
            return [gs.GibbsKernel(["mu"], tfn)]
        raise ValueError(k)

    def test_functions(self, th, data):
        mu, y = th["mu"], data["y"]
        ybar = y.mean(axis=1)
        return {"mu": mu, "mu^2": mu ** 2, "mu*ybar": mu * ybar, "loglik": -0.5 * np.sum((y - mu[:, None]) ** 2, axis=1),
                "logprior": -0.5 * (mu / self.s0) ** 2}

    def prior_cdfs(self):
        return {"mu": lambda x: sst.norm.cdf(x, 0, self.s0)}

    def prior_sd(self):
        return {"mu": self.s0}


class TwoBlocks(DictCfg):
    """Two independent blocks a, b with their own data; kernels of the *same* type on each block, so that
    any coupling of the blocks' randomness shows up in cross-moments."""

    def __init__(self, name, kern):
        super().__init__(name)
        self.kern = kern

    def prior_predictive(self, rng, N):
        a = rng.normal(0, 1.0, N)
        b = rng.normal(0, 1.0, N)
        return {"a": a, "b": b}, {"ya": a + rng.normal(size=N), "yb": b + rng.normal(size=N)}

    def log_prob(self, s):
        return -0.5 * (s["a"] ** 2 + s["b"] ** 2 + (s["ya"] - s["a"]) ** 2 + (s["yb"] - s["b"]) ** 2)

    def kernels(self):
        import jax.numpy as jnp
        import liesel.goose as gs

        if self.kern == "rw+rw":
            return [gs.RWKernel(["a"], initial_step_size=1.0), gs.RWKernel(["b"], initial_step_size=1.0)]
        if self.kern == "iwls+iwls":
            return [gs.IWLSKernel(["a"], initial_step_size=1.0), gs.IWLSKernel(["b"], initial_step_size=1.0)]
        return [gs.HMCKernel(["a"], initial_step_size=0.5, initial_inverse_mass_matrix=jnp.ones(1), num_integration_steps=2),
                gs.HMCKernel(["b"], initial_step_size=0.5, initial_inverse_mass_matrix=jnp.ones(1), num_integration_steps=2)]

    def test_functions(self, th, data):
        a, b = th["a"], th["b"]
        ra, rb = a - data["ya"] / 2, b - data["yb"] / 2      # posterior residuals: independent under the posterior
        return {"a": a, "b": b, "a^2": a ** 2, "b^2": b ** 2, "a*b": a * b, "ra*rb": ra * rb, "ra^2*rb^2": (ra * rb) ** 2,
                "|ra|*|rb|": np.abs(ra) * np.abs(rb)}

    def prior_cdfs(self):
        return {"a": lambda x: sst.norm.cdf(x, 0, 1.0), "b": lambda x: sst.norm.cdf(x, 0, 1.0)}

    def prior_sd(self):
        return {"a": 1.0, "b": 1.0}


class NIG(DictCfg):
    """mu | sigma2 ~ N(0, 4 sigma2), sigma2 ~ InvGamma(3, 2), y_i ~ N(mu, sigma2); sigma2 is sampled on its ORIGINAL
    scale with a random walk: proposals below 0 have an undefined (NaN) log-density and must be rejected."""
    n = 6

    def __init__(self, name, kern):
        super().__init__(name)
        self.kern = kern

    def prior_predictive(self, rng, N):
        s2 = 2.0 / rng.gamma(3.0, size=N)
        mu = rng.normal(size=N) * np.sqrt(4 * s2)
        y = mu[:, None] + np.sqrt(s2)[:, None] * rng.normal(size=(N, self.n))
        return {"mu": mu, "s2": s2}, {"y": y}

    def log_prob(self, s):
        import jax.numpy as jnp

        s2 = s["s2"]
        ls2 = jnp.log(s2)          # NaN for s2 < 0
        return (-0.5 * ls2 - 0.5 * s["mu"] ** 2 / (4 * s2) - 4.0 * ls2 - 2.0 / s2
                - 0.5 * self.n * ls2 - 0.5 * jnp.sum((s["y"] - s["mu"]) ** 2) / s2)

    def kernels(self):
        import jax
        import jax.numpy as jnp
        import liesel.goose as gs

        n = self.n

        def mu_gibbs(key, state):
            prec = (n + 0.25) / state["s2"]
            mean = jnp.sum(state["y"]) / (n + 0.25)
            return {"mu": mean + jax.random.normal(key) / jnp.sqrt(prec)}
        second = gs.RWKernel(["s2"], initial_step_size=0.9) if self.kern == "gibbs+rw" else \
            gs.IWLSKernel(["s2"], chol_info_fn=lambda st: jnp.ones((1, 1)) * 1.5, initial_step_size=1.0)
        return [gs.GibbsKernel(["mu"], mu_gibbs), second]

    def test_functions(self, th, data):
        mu, s2, y = th["mu"], th["s2"], data["y"]
        ls = np.log(np.abs(s2) + 1e-300)
        return {"mu": mu, "log_s2": ls, "log_s2^2": ls ** 2, "mu^2/s2": np.clip(mu ** 2 / np.abs(s2), 0, 200), "s2<=0": (s2 <= 0).astype(float),
                "log_s2*sy": ls * y.std(axis=1), "mu*ybar": mu * y.mean(axis=1), "1/s2": np.clip(1 / np.abs(s2), 0, 100)}

    def prior_cdfs(self):
        return {"s2": lambda x: sst.invgamma.cdf(x, 3.0, scale=2.0)}

    def prior_sd(self):
        return {"mu": 2.0, "s2": 1.0}


class MeanLogScale(DictCfg):
    n = 6

    def __init__(self, name, kern):
        super().__init__(name)
        self.kern = kern

    def prior_predictive(self, rng, N):
        mu = rng.normal(0, 2.0, N)
        ls = rng.normal(0, 0.5, N)
        y = mu[:, None] + np.exp(ls)[:, None] * rng.normal(size=(N, self.n))
        return {"mu": mu, "ls": ls}, {"y": y}

    def log_prob(self, s):
        import jax.numpy as jnp

        sig = jnp.exp(s["ls"])
        return (-0.5 * (s["mu"] / 2.0) ** 2 - 0.5 * (s["ls"] / 0.5) ** 2
                - self.n * s["ls"] - 0.5 * jnp.sum(((s["y"] - s["mu"]) / sig) ** 2))

    def kernels(self):
        import jax.numpy as jnp
        import liesel.goose as gs

        k = self.kern
        if k == "rw+hmc":
            return [gs.RWKernel(["mu"], initial_step_size=0.7),
                    gs.HMCKernel(["ls"], initial_step_size=0.25, initial_inverse_mass_matrix=jnp.ones(1), num_integration_steps=3)]
        if k == "nuts_joint":
            return [gs.NUTSKernel(["mu", "ls"], initial_step_size=0.3, initial_inverse_mass_matrix=jnp.asarray([0.1, 0.4]), max_treedepth=4)]
        if k == "iwls_joint":
            return [gs.IWLSKernel(["ls", "mu"], initial_step_size=0.9)]
        if k == "mh+rw":
            return [gs.MHKernel(["mu"], asym_proposal("mu", 0.4), initial_step_size=0.6), gs.RWKernel(["ls"], initial_step_size=0.4)]
        if k == "hmc_dense":
            return [gs.HMCKernel(["ls", "mu"], initial_step_size=0.3, initial_inverse_mass_matrix=jnp.asarray([[0.2, 0.05], [0.05, 0.5]]),
                                 num_integration_steps=4, mm_diag=False)]
        raise ValueError(k)

    def test_functions(self, th, data):
        mu, ls, y = th["mu"], th["ls"], data["y"]
        sig = np.exp(ls)
        ll = -self.n * ls - 0.5 * np.sum(((y - mu[:, None]) / sig[:, None]) ** 2, axis=1)
        return {"mu": mu, "ls": ls, "mu^2": mu ** 2, "ls^2": ls ** 2, "mu*ls": mu * ls, "mu*ybar": mu * y.mean(axis=1),
                "ls*sy": ls * y.std(axis=1), "loglik": ll, "logprior": -0.5 * (mu / 2.0) ** 2 - 0.5 * (ls / 0.5) ** 2}

    def prior_cdfs(self):
        return {"mu": lambda x: sst.norm.cdf(x, 0, 2.0), "ls": lambda x: sst.norm.cdf(x, 0, 0.5)}

    def prior_sd(self):
        return {"mu": 2.0, "ls": 0.5}


class GLM(DictCfg):
    """Logistic / Poisson regression with N(0, s0^2 I) prior on beta (dimension 2); X is fixed."""

    def __init__(self, name, fam, kern):
        super().__init__(name)
        self.fam = fam
        self.kern = kern
        r = np.random.default_rng(12345)
        self.n = 8
        self.X = np.c_[np.ones(self.n), r.normal(size=self.n)] * (1.0 if fam == "logit" else 0.5)
        self.s0 = 1.5 if fam == "logit" else 0.7

    def prior_predictive(self, rng, N):
        beta = rng.normal(0, self.s0, size=(N, 2))
        eta = beta @ self.X.T
        if self.fam == "logit":
            y = (rng.random((N, self.n)) < 1 / (1 + np.exp(-eta))).astype(np.float64)
        else:
            y = rng.poisson(np.exp(eta)).astype(np.float64)
        return {"beta": beta}, {"y": y}

    def log_prob(self, s):
        import jax
        import jax.numpy as jnp

        X = jnp.asarray(self.X, jnp.float32)
        eta = X @ s["beta"]
        pr = -0.5 * jnp.sum((s["beta"] / self.s0) ** 2)
        if self.fam == "logit":
            return pr + jnp.sum(s["y"] * eta - jax.nn.softplus(eta))
        return pr + jnp.sum(s["y"] * eta - jnp.exp(eta))

    def kernels(self):
        import jax
        import jax.numpy as jnp
        import liesel.goose as gs

        if self.kern == "iwls":
            return [gs.IWLSKernel(["beta"], initial_step_size=1.0)]
        if self.kern == "iwls_user":
            X = jnp.asarray(self.X, jnp.float32)
            s0 = self.s0

            def chol(state):
                eta = X @ state["beta"]
                wgt = jax.nn.sigmoid(eta) * (1 - jax.nn.sigmoid(eta)) if self.fam == "logit" else jnp.exp(eta)
                return jnp.linalg.cholesky(X.T @ (wgt[:, None] * X) + jnp.eye(2) / s0 ** 2)
            return [gs.IWLSKernel(["beta"], chol_info_fn=chol, initial_step_size=0.9)]
        if self.kern == "nuts":
            return [gs.NUTSKernel(["beta"], initial_step_size=0.35, initial_inverse_mass_matrix=jnp.ones(2), max_treedepth=4)]
        if self.kern == "rw":
            return [gs.RWKernel(["beta"], initial_step_size=0.5)]
        raise ValueError(self.kern)

    def test_functions(self, th, data):
        b, y = th["beta"], data["y"]
        eta = b @ self.X.T
        ll = np.sum(y * eta - (np.logaddexp(0, eta) if self.fam == "logit" else np.exp(eta)), axis=1)
        return {"b0": b[:, 0], "b1": b[:, 1], "b0^2": b[:, 0] ** 2, "b1^2": b[:, 1] ** 2, "b0*b1": b[:, 0] * b[:, 1],
                "b0*ysum": b[:, 0] * y.sum(axis=1), "b1*xy": b[:, 1] * (y @ self.X[:, 1]), "loglik": ll,
                "logprior": -0.5 * np.sum((b / self.s0) ** 2, axis=1)}

    def prior_cdfs(self):
        return {"beta": lambda x: sst.norm.cdf(x, 0, self.s0)}

    def prior_sd(self):
        return {"beta": self.s0}


class LieselCfg:
    """Liesel graph models; per-chain parameters and data are written through vmap(update_state)."""

    def __init__(self, name, which, kern):
        self.name = name
        self.which = which
        self.kern = kern

    def make_model(self):
        import jax.numpy as jnp
        import liesel.model as lsl
        import tensorflow_probability.substrates.jax.bijectors as tfb
        import tensorflow_probability.substrates.jax.distributions as tfd
        from liesel.distributions import MultivariateNormalDegenerate

        r = np.random.default_rng(777)
        self.grp = None
        if self.which == "linreg":
            self.n, self.p = 8, 2
            self.X = np.c_[np.ones(self.n), r.normal(size=self.n)].astype(np.float32)
            beta = lsl.param(jnp.zeros(2, jnp.float32), lsl.Dist(tfd.Normal, loc=0.0, scale=2.0), name="beta")
            s2 = lsl.param(jnp.asarray(1.0, jnp.float32), lsl.Dist(tfd.InverseGamma, concentration=3.0, scale=2.0), name="sigma2")
            s2.transform(tfb.Exp())
            mu = lsl.Var(lsl.Calc(lambda b: jnp.asarray(self.X) @ b, beta), name="mu")
            sd = lsl.Calc(jnp.sqrt, s2)
            y = lsl.obs(jnp.zeros(self.n, jnp.float32), lsl.Dist(tfd.Normal, loc=mu, scale=sd), name="y")
            # a helper quantity that feeds no distribution; the user's Gibbs step reads it from the model state
            rss = lsl.Calc(lambda y_, m_: jnp.sum((y_ - m_) ** 2), y, mu, _name="rss")
            return lsl.GraphBuilder().add(y, rss).build_model()
        if self.which in ("smooth", "smoothrd"):
            self.n, self.q = 8, 3
            self.Z = r.normal(size=(self.n, self.q)).astype(np.float32) * 0.8
            A = r.normal(size=(self.q, self.q))
            self.K = (A @ A.T / self.q + 0.5 * np.eye(self.q)).astype(np.float32)
            self.rank = self.q
            if self.which == "smoothrd":
                # rank-deficient first-order random-walk penalty (rank q-1); the constant direction, on which the
                # degenerate normal is flat, gets a proper N(0, 2^2) prior through a weak variable with a distribution
                D = np.diff(np.eye(self.q), axis=0)
                self.K = (D.T @ D).astype(np.float32)
                self.rank = self.q - 1
                self.nullv = (np.ones(self.q) / np.sqrt(self.q)).astype(np.float32)
            K_var = lsl.Var(jnp.asarray(self.K), name="K")
            a_var = lsl.Var(jnp.asarray(3.0, jnp.float32), name="a")
            b_var = lsl.Var(jnp.asarray(2.0, jnp.float32), name="b")
            rank_var = lsl.Var(self.rank, name="rank")
            tau2 = lsl.param(jnp.asarray(1.0, jnp.float32), lsl.Dist(tfd.InverseGamma, concentration=a_var, scale=b_var), name="tau2")
            b2 = lsl.param(jnp.zeros(self.q, jnp.float32),
                           lsl.Dist(MultivariateNormalDegenerate.from_penalty, loc=0.0, var=tau2, pen=K_var, rank=rank_var), name="b2")
            self.grp = lsl.Group("smooth", beta=b2, tau2=tau2, rank=rank_var, K=K_var, a=a_var, b=b_var)
            mu = lsl.Var(lsl.Calc(lambda b: jnp.asarray(self.Z) @ b, b2), name="mu")
            y = lsl.obs(jnp.zeros(self.n, jnp.float32), lsl.Dist(tfd.Normal, loc=mu, scale=1.0), name="y")
            gb = lsl.GraphBuilder().add(y).add_groups(self.grp)
            if self.which == "smoothrd":
                lvl = lsl.Var(lsl.Calc(lambda b: jnp.sum(jnp.asarray(self.nullv) * b), b2),
                              lsl.Dist(tfd.Normal, loc=0.0, scale=2.0), name="level")
                lvl.parameter = True
                gb.add(lvl)
            return gb.build_model()
        if self.which == "bounded":
            # x ~ Uniform(0, upper) with the *default* (parameter-dependent) bijector Sigmoid(0, upper); upper itself is sampled
            self.n = 3
            upper = lsl.param(jnp.asarray(1.0, jnp.float32), lsl.Dist(tfd.LogNormal, loc=0.3, scale=0.4), name="upper")
            upper.transform(tfb.Exp())
            x = lsl.param(jnp.asarray(0.5, jnp.float32), lsl.Dist(tfd.Uniform, low=0.0, high=upper), name="x")
            x.auto_transform = True
            y = lsl.obs(jnp.zeros(self.n, jnp.float32), lsl.Dist(tfd.Normal, loc=x, scale=0.7), name="y")
            return lsl.GraphBuilder().add(y).build_model()
        # mixture
        self.n = 4
        self.outs = np.array([0.0, 1.0, 2.0], np.float32)
        self.pr = np.array([0.25, 0.45, 0.30], np.float32)
        outcomes = lsl.Var(jnp.asarray(self.outs), name="outcomes")
        k = lsl.Var(jnp.asarray(0.0), lsl.Dist(tfd.FiniteDiscrete, outcomes=outcomes, probs=jnp.asarray(self.pr)), name="k")
        k.parameter = True
        if self.which == "mixturehier":
            # the prior scale of m depends on the discrete variable: p(m | k) belongs to the full conditional of k
            msd = lsl.Var(lsl.Calc(lambda k_: 0.6 + 0.7 * k_, k), name="m_scale")
            m = lsl.param(jnp.asarray(0.0, jnp.float32), lsl.Dist(tfd.Normal, loc=0.0, scale=msd), name="m")
        else:
            m = lsl.param(jnp.asarray(0.0, jnp.float32), lsl.Dist(tfd.Normal, loc=0.0, scale=1.5), name="m")
        loc = lsl.Var(lsl.Calc(lambda m, k: m + 1.5 * k, m, k), name="loc")
        y = lsl.obs(jnp.zeros(self.n, jnp.float32), lsl.Dist(tfd.Normal, loc=loc, scale=1.0), name="y")
        return lsl.GraphBuilder().add(y).build_model()

    def prior_predictive(self, rng, N):
        if self.which == "linreg":
            beta = rng.normal(0, 2.0, size=(N, 2))
            s2 = 2.0 / rng.gamma(3.0, size=N)
            y = beta @ self.X.T + np.sqrt(s2)[:, None] * rng.normal(size=(N, self.n))
            return {"beta": beta, "sigma2_transformed": np.log(s2)}, {"y": y}
        if self.which in ("smooth", "smoothrd"):
            tau2 = 2.0 / rng.gamma(3.0, size=N)
            if self.which == "smoothrd":
                lam, Q = np.linalg.eigh(self.K.astype(np.float64))
                Qr, lam_r = Q[:, 1:], lam[1:]
                b2 = ((rng.normal(size=(N, self.rank)) / np.sqrt(lam_r)) @ Qr.T) * np.sqrt(tau2)[:, None] \
                    + 2.0 * rng.normal(size=(N, 1)) * self.nullv.astype(np.float64)[None, :]
            else:
                L = np.linalg.cholesky(np.linalg.inv(self.K.astype(np.float64)))
                b2 = (rng.normal(size=(N, self.q)) @ L.T) * np.sqrt(tau2)[:, None]
            y = b2 @ self.Z.T + rng.normal(size=(N, self.n))
            return {"b2": b2, "tau2": tau2}, {"y": y}
        if self.which == "bounded":
            upper = np.exp(rng.normal(0.3, 0.4, N))
            x = rng.uniform(0.0, 1.0, N) * upper
            y = x[:, None] + 0.7 * rng.normal(size=(N, self.n))
            return {"upper_transformed": np.log(upper), "x_transformed": np.log(x / upper) - np.log1p(-x / upper)}, {"y": y}
        k = rng.choice(self.outs, size=N, p=self.pr / self.pr.sum()).astype(np.float64)
        m = rng.normal(0, 1.5, N) if self.which != "mixturehier" else rng.normal(size=N) * (0.6 + 0.7 * k)
        y = (m + 1.5 * k)[:, None] + rng.normal(size=(N, self.n))
        return {"k": k, "m": m}, {"y": y}

    def kernels(self, model):
        import jax
        import jax.numpy as jnp
        import liesel.goose as gs
        import liesel.model as lsl
        from liesel.model.goose import finite_discrete_gibbs_kernel

        if self.which == "linreg":
            if self.kern == "nuts+rw":
                return [gs.NUTSKernel(["beta"], initial_step_size=0.35, initial_inverse_mass_matrix=jnp.ones(2), max_treedepth=4),
                        gs.RWKernel(["sigma2_transformed"], initial_step_size=0.7)]
            if self.kern == "iwls+gibbs":
                X = jnp.asarray(self.X)
                n = self.n

                def tfn(key, state):
                    # conjugate IG(3 + n/2, 2 + SSR/2) draw of sigma2, written on the transformed (log) scale
                    rate = 2.0 + 0.5 * state["rss"].value
                    s2 = rate / jax.random.gamma(key, 3.0 + n / 2)
                    return {"sigma2_transformed": jnp.log(s2)}
                return [gs.IWLSKernel(["beta"], initial_step_size=1.0), gs.GibbsKernel(["sigma2_transformed"], tfn)]
            if self.kern == "nuts_joint":
                return [gs.NUTSKernel(["beta", "sigma2_transformed"], initial_step_size=0.3, initial_inverse_mass_matrix=jnp.ones(3), max_treedepth=4)]
            if self.kern == "hmc+mh":
                def prop(key, state, s):
                    x = state["sigma2_transformed_value"].value
                    mf = x + 0.3 * s * jnp.tanh(x)
                    xp = mf + s * jax.random.normal(key)
                    mb = xp + 0.3 * s * jnp.tanh(xp)
                    return gs.MHProposal({"sigma2_transformed": xp}, -0.5 * ((x - mb) / s) ** 2 + 0.5 * ((xp - mf) / s) ** 2)
                return [gs.HMCKernel(["beta"], initial_step_size=0.3, initial_inverse_mass_matrix=jnp.ones(2), num_integration_steps=3),
                        gs.MHKernel(["sigma2_transformed"], prop, initial_step_size=0.7)]
        if self.which in ("smooth", "smoothrd"):
            first = gs.IWLSKernel(["b2"], initial_step_size=1.0) if self.kern == "iwls+tau2" else \
                gs.NUTSKernel(["b2"], initial_step_size=0.35, initial_inverse_mass_matrix=jnp.ones(self.q), max_treedepth=4)
            return [first, lsl.tau2_gibbs_kernel(self.grp)]
        if self.which == "bounded":
            if self.kern == "nuts+rw":
                return [gs.NUTSKernel(["x_transformed"], initial_step_size=0.5, initial_inverse_mass_matrix=jnp.ones(1), max_treedepth=3),
                        gs.RWKernel(["upper_transformed"], initial_step_size=0.5)]
            return [gs.RWKernel(["x_transformed"], initial_step_size=1.0), gs.IWLSKernel(["upper_transformed"], initial_step_size=0.9)]
        if self.kern == "disc+nuts":
            return [finite_discrete_gibbs_kernel("k", model), gs.NUTSKernel(["m"], initial_step_size=0.5, initial_inverse_mass_matrix=jnp.ones(1), max_treedepth=3)]
        return [gs.RWKernel(["m"], initial_step_size=0.8), finite_discrete_gibbs_kernel("k", model)]

    def build(self, rng, N, T, seed):
        import jax
        import jax.numpy as jnp
        import liesel.goose as gs
        from liesel.goose.engine import Engine
        from liesel.goose.kernel_sequence import KernelSequence

        model = self.make_model()
        iface = gs.LieselInterface(model)
        th0, data = self.prior_predictive(rng, N)
        base = model.state
        stacked = jax.tree_util.tree_map(lambda x: jnp.broadcast_to(jnp.asarray(x), (N,) + jnp.shape(x)), base)
        pos = {k: jnp.asarray(v, jnp.float32) for k, v in {**th0, **data}.items()}
        states = jax.jit(jax.vmap(iface.update_state))(pos, stacked)
        kernels = self.kernels(model)
        for i, k in enumerate(kernels):
            k.set_model(iface)
            k.identifier = f"kernel_{i:02d}"
        eng = Engine(seeds=jax.random.split(jax.random.PRNGKey(seed), N), model_states=states,
                     kernel_sequence=KernelSequence(kernels), epoch_configs=mk_epochs(schedule(T, getattr(self, "chunked", False))[0]),
                     jitted_sample_duration=schedule(T, getattr(self, "chunked", False))[1], model=iface, position_keys=list(th0), show_progress=False)
        return eng, th0, data

    def final(self, eng, th0):
        pos = eng.get_results().positions.combine_all().unwrap()
        return {k: np.asarray(pos[k][:, -1], np.float64) for k in th0}, eng.get_results()

    def test_functions(self, th, data):
        y = data["y"]
        if self.which == "linreg":
            b, t = th["beta"], th["sigma2_transformed"]
            s2 = np.exp(t)
            res_ = y - b @ self.X.T
            ll = -0.5 * self.n * t - 0.5 * np.sum(res_ ** 2, axis=1) / s2
            return {"b0": b[:, 0], "b1": b[:, 1], "logs2": t, "b0^2": b[:, 0] ** 2, "b1^2": b[:, 1] ** 2, "logs2^2": t ** 2,
                    "b0*b1": b[:, 0] * b[:, 1], "b1*logs2": b[:, 1] * t, "s2": np.minimum(s2, 50), "b0*ybar": b[:, 0] * y.mean(axis=1),
                    "logs2*sy": t * y.std(axis=1), "loglik": ll}
        if self.which in ("smooth", "smoothrd"):
            b, t2 = th["b2"], th["tau2"]
            lt = np.log(t2)
            res_ = y - b @ self.Z.T
            return {"b_0": b[:, 0], "b_1": b[:, 1], "b_2": b[:, 2], "logtau2": lt, "logtau2^2": lt ** 2, "b_0^2": b[:, 0] ** 2,
                    "b_0*b_1": b[:, 0] * b[:, 1], "bKb/tau2": np.einsum("ni,ij,nj->n", b, self.K.astype(np.float64), b) / t2,
                    "b_0*zy": b[:, 0] * (y @ self.Z[:, 0]), "loglik": -0.5 * np.sum(res_ ** 2, axis=1)}
        if self.which == "bounded":
            lu, tx = th["upper_transformed"], th["x_transformed"]
            up = np.exp(lu)
            x = up / (1 + np.exp(-tx))
            return {"log_upper": lu, "log_upper^2": lu ** 2, "x": x, "x^2": x ** 2, "x/upper": x / up, "(x/upper)^2": (x / up) ** 2,
                    "x*ybar": x * y.mean(axis=1), "log_upper*ybar": lu * y.mean(axis=1), "loglik": -0.5 * np.sum((y - x[:, None]) ** 2, axis=1) / 0.49}
        k, m = th["k"], th["m"]
        return {"m": m, "m^2": m ** 2, "k": k, "k==0": (k == 0).astype(float), "k==2": (k == 2).astype(float), "m*k": m * k,
                "m*ybar": m * y.mean(axis=1), "k*ybar": k * y.mean(axis=1), "loglik": -0.5 * np.sum((y - (m + 1.5 * k)[:, None]) ** 2, axis=1)}

    def prior_cdfs(self):
        if self.which == "linreg":
            return {"beta": lambda x: sst.norm.cdf(x, 0, 2.0), "sigma2_transformed": lambda x: sst.invgamma.cdf(np.exp(x), 3.0, scale=2.0)}
        if self.which in ("smooth", "smoothrd"):
            return {"tau2": lambda x: sst.invgamma.cdf(x, 3.0, scale=2.0)}
        if self.which == "bounded":
            return {"upper_transformed": lambda x: sst.norm.cdf(x, 0.3, 0.4), "x_transformed": lambda x: sst.logistic.cdf(x)}
        if self.which == "mixturehier":
            w_ = self.pr / self.pr.sum()
            return {"m": lambda x: sum(w_[j] * sst.norm.cdf(x, 0, 0.6 + 0.7 * self.outs[j]) for j in range(3))}
        return {"m": lambda x: sst.norm.cdf(x, 0, 1.5)}

    def prior_sd(self):
        if self.which == "bounded":
            return {"upper_transformed": 0.4, "x_transformed": 1.8}
        if self.which == "linreg":
            return {"beta": 2.0, "sigma2_transformed": 0.6}
        if self.which in ("smooth", "smoothrd"):
            return {"b2": 1.0, "tau2": 1.0}
        return {"m": 1.5, "k": 0.75}


def schedule(T, chunked):
    """One burn-in epoch run as a single jitted chunk, or (chunked, T a multiple of 5) a burn-in and a posterior epoch of
    unequal lengths that the engine runs as five jitted chunks."""
    if chunked and T % 5 == 0 and T >= 10:
        return [[3, 3 * T // 5, 1], [4, 2 * T // 5, 1]], T // 5
    return [[3, T, 1]], T


def all_configs():
    cfgs = {}
    for k in ("rw", "hmc", "nuts", "iwls", "mh_asym", "gibbs"):
        cfgs[f"normal-normal/{k}"] = lambda k=k: NormalNormal(f"normal-normal/{k}", k)
    for k in ("rw+rw", "iwls+iwls", "hmc+hmc"):
        cfgs[f"two-blocks/{k}"] = lambda k=k: TwoBlocks(f"two-blocks/{k}", k)
    for k in ("rw+hmc", "nuts_joint", "iwls_joint", "mh+rw", "hmc_dense"):
        cfgs[f"mean-logscale/{k}"] = lambda k=k: MeanLogScale(f"mean-logscale/{k}", k)
    for fam in ("logit", "pois"):
        for k in ("iwls", "iwls_user", "nuts", "rw"):
            cfgs[f"{fam}/{k}"] = lambda fam=fam, k=k: GLM(f"{fam}/{k}", fam, k)
    for k in ("nuts+rw", "iwls+gibbs", "nuts_joint", "hmc+mh"):
        cfgs[f"liesel-linreg/{k}"] = lambda k=k: LieselCfg(f"liesel-linreg/{k}", "linreg", k)
    for k in ("iwls+tau2", "nuts+tau2"):
        cfgs[f"liesel-smooth/{k}"] = lambda k=k: LieselCfg(f"liesel-smooth/{k}", "smooth", k)
        cfgs[f"liesel-smooth-rankdef/{k}"] = lambda k=k: LieselCfg(f"liesel-smooth-rankdef/{k}", "smoothrd", k)
    for k in ("nuts+rw", "rw+iwls"):
        cfgs[f"liesel-bounded/{k}"] = lambda k=k: LieselCfg(f"liesel-bounded/{k}", "bounded", k)
    for k in ("gibbs+rw", "gibbs+iwls_user"):
        cfgs[f"nig-original-scale/{k}"] = lambda k=k: NIG(f"nig-original-scale/{k}", k)
    for k in ("disc+nuts", "rw+disc"):
        cfgs[f"liesel-mixture/{k}"] = lambda k=k: LieselCfg(f"liesel-mixture/{k}", "mixture", k)
        cfgs[f"liesel-mixture-hier/{k}"] = lambda k=k: LieselCfg(f"liesel-mixture-hier/{k}", "mixturehier", k)
    return cfgs


QUICK = ["liesel-bounded/nuts+rw", "nig-original-scale/gibbs+rw", "two-blocks/rw+rw", "normal-normal/rw", "normal-normal/mh_asym", "normal-normal/gibbs", "mean-logscale/rw+hmc", "mean-logscale/nuts_joint",
         "mean-logscale/iwls_joint", "logit/iwls", "pois/iwls_user", "liesel-linreg/nuts+rw", "liesel-linreg/iwls+gibbs",
         "liesel-smooth/iwls+tau2", "liesel-smooth-rankdef/nuts+tau2", "liesel-mixture/disc+nuts", "liesel-mixture-hier/rw+disc"]


def run_case(case):
    res = CaseResult(case)
    try:
        cfg = all_configs()[case["config"]]()
        cfg.chunked = bool(case.get("chunked"))
        rng = rng_for(case["seed"], "c04", case["config"], case["T"], case.get("stage", 1), case["draw_seed"])
        N, T = case["n"], case["T"]
        eng, th0, data = cfg.build(rng, N, T, case["draw_seed"])
        eng.sample_all_epochs()
        thT, results = cfg.final(eng, th0)
        th0 = {k: np.asarray(np.asarray(v, np.float32), np.float64) for k, v in th0.items()}
        data = {k: np.asarray(np.asarray(v, np.float32), np.float64) for k, v in data.items()}
        g0 = cfg.test_functions(th0, data)
        gT = cfg.test_functions(thT, data)
        st = {}
        for name in g0:
            st[f"paired|{name}"] = vs.z_paired(gT[name], g0[name])
        res.mon("paired_moment_statistics", len(g0))
        for key, cdf in cfg.prior_cdfs().items():
            x = thT[key]
            x = x.reshape(N, -1)
            for j in range(x.shape[1]):
                p = sst.kstest(x[:, j], cdf).pvalue
                st[f"ks|{key}[{j}]"] = vs.z_from_p(p)
                res.mon("ks_against_prior")
        # did the chains move?
        sds = cfg.prior_sd()
        moved = []
        for key, sd in sds.items():
            d = np.abs(thT[key] - th0[key]).reshape(N, -1)
            moved.append((float(np.mean(np.any(d > 0, axis=1))), float(np.mean(d) / sd)))
        res.mon("chains_moved")
        rate = min(m[0] for m in moved)
        dist = min(m[1] for m in moved)
        desc = {"config": case["config"], "T": T, "N": N, "jitted_chunks": 5 if schedule(T, cfg.chunked)[1] != T else 1, "move_rate_min": round(rate, 3), "mean_move_in_prior_sd_min": round(dist, 3),
                "min_detectable_bias_in_sd_of_paired_difference": round(vs.Z_FLAG / np.sqrt(N), 4),
                "max_abs_z": round(float(max(abs(v) for v in st.values() if np.isfinite(v))), 2)}
        if rate > 0.05 and dist > 0.1:
            res.nontriv(("c04", case["config"], T))
        else:
            res.ev("trivial_configuration")
        res.extra = {"stats": st, "flags": vs.flags(st), "mech": "not-invariant", "desc": desc}
        res.sample = desc
        res.evals = N
        res.ev("chains", N)
        res.ev("transitions", N * T)
    except Exception as exc:  # noqa: BLE001
        mech, text = exc_mech(exc)
        if mech is None:
            raise
        res.violation(mech, f"raised\n{text}", case)
    return res


def gen_cases(tier, seed):
    cases = []
    if tier == "quick":
        for i, name in enumerate(QUICK):
            cases.append({"idx": i, "seed": seed, "config": name, "T": 20 if i % 3 else 5, "n": 8192, "chunked": bool(i % 2),
                          "draw_seed": (seed * 1009 + i * 13 + 7) % (2 ** 30), "cost": 10})
    else:
        i = 0
        for name in all_configs():
            for T in (1, 5, 25, 50):
                cases.append({"idx": i, "seed": seed, "config": name, "T": T, "n": 32768, "chunked": bool(i % 2),
                              "draw_seed": (seed * 1009 + i * 13 + 7) % (2 ** 30), "cost": 10 * T})
                i += 1
    return cases


def stage2(case):
    c = dict(case)
    c["stage2_of"] = case["idx"]
    c["stage"] = 2
    c["n"] = case["n"] * 4
    c["draw_seed"] = (case["draw_seed"] * 48271 + 4242) % (2 ** 30)
    return c


def finalize(ctx):
    vs.two_stage_finalize(ctx, stage2, what="invariance statistic")
