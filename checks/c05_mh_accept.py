"""C05 — Metropolis-Hastings acceptance rule of the real `mh_step`, driven black-box with a
scripted model (log-densities are read from the state, so lp, lp', c are dictated)."""

from __future__ import annotations

import numpy as np

from vlib.common import CaseResult, off, rng_for

ID = "C05"
RULE = (
    "random (lp, lp', correction, key) tuples incl. +-inf/NaN; per key a ladder of acceptance "
    "probabilities {0, 2^-100, 2^-24 .. 1-2^-24, 1, >1}; zero-draw boundary keys x zero-probability "
    "scenarios; keys whose uniform equals the acceptance probability exactly; eager, jit and vmap. "
    "Also: tuples with log-densities up to 1e7 a few float32 steps apart and a small non-zero correction. non-trivial = tuple with non-finite ratio or alpha in (0,1), and every (boundary key x scenario) "
    "pair and every exact-equality probe; distinct by value hash"
)
REQUIRED = ["ladder_monotone", "alpha_zero_rejected", "alpha_one_accepted", "reported_prob",
            "nan_code", "state_on_reject", "state_on_accept", "moved_flag", "prob_in_unit",
            "frequency", "boundary_key_scenarios", "strict_at_equality", "modes_agree"]
ANCHORS = ["goose/mh.py:mh_step"]
ASSUMPTIONS = ["jax.random.uniform, jnp.exp and lax.cond are trusted primitives",
               "float32 uniforms are multiples of 2^-23, so acceptance at alpha=2^-100 identifies a draw of exactly 0"]
WORKERS = 16
TIMEOUT = {"quick": 1500, "thorough": 10800}

# seeds s for which jax.random.uniform(PRNGKey(s)) == 0.0 (found by the thorough search;
# they are *verified* black-box before use, never trusted)
HINT_SEEDS = [14620119, 20099561, 20334770]

LADDER_EXP = [-100, -24, -23, -22, -20, -16, -12, -8, -6, -4, -3, -2, -1]


def _setup():
    import jax
    import jax.numpy as jnp
    import liesel.goose as gs
    from liesel.goose.mh import mh_step

    model = gs.DictInterface(lambda s: s["lp"])
    x0 = jnp.arange(3, dtype=jnp.float32)

    def call(key, lp, lpp, c):
        state = {"lp": lp, "x": x0}
        prop = {"lp": lpp, "x": x0 + 1.0}
        info, out = mh_step(key, model, prop, state, c)
        return (info.error_code, info.acceptance_prob, info.position_moved,
                out["lp"], out["x"])

    vcall = jax.jit(jax.vmap(call))
    jcall = jax.jit(call)
    return jax, jnp, call, jcall, vcall, x0


_S = None


def S():
    global _S
    if _S is None:
        _S = _setup()
    return _S


def bits(a):
    return np.asarray(a, dtype=np.float32).view(np.uint32)


def judge(res, keyrep, lp, lpp, c, out, tag=""):
    """All per-call clauses.  Arrays are 1-D batches (numpy)."""
    code, prob, moved, olp, ox = [np.asarray(o) for o in out]
    lp = np.asarray(lp, np.float32)
    lpp = np.asarray(lpp, np.float32)
    c = np.asarray(c, np.float32)
    with np.errstate(all="ignore"):
        d = (lpp - lp) + c  # float32, same association as documented: difference + correction
        isn = np.isnan(d)
        exp_alpha = np.where(isn, np.float32(0), np.minimum(np.float32(1), np.exp(d.astype(np.float64))).astype(np.float32))
    n = len(lp)
    # state clauses: accepted <=> x moved to x0+1
    x0 = np.arange(3, dtype=np.float32)
    is_prop = np.all(bits(ox) == bits(x0 + 1)[None, :], axis=1) & ((bits(olp) == bits(lpp)))
    is_cur = np.all(bits(ox) == bits(x0)[None, :], axis=1) & ((bits(olp) == bits(lp)))
    # note: when lp' and lp have identical bits the lp leaf cannot discriminate; x does.
    acc = np.all(bits(ox) == bits(x0 + 1)[None, :], axis=1)

    def wit(i):
        return {"key": keyrep(i), "lp": float(lp[i]), "lp_prop": float(lpp[i]), "corr": float(c[i]),
                "code": int(code[i]), "prob": float(prob[i]), "moved": int(moved[i]),
                "accepted": bool(acc[i]), "mode": tag}

    res.mon("state_on_reject", int((~acc).sum()))
    res.mon("state_on_accept", int(acc.sum()))
    bad = np.where(~(is_prop | is_cur))[0]
    for i in bad[:3]:
        res.violation("state-neither", f"returned state is neither input nor updated state: {wit(i)}", wit(i))
    res.mon("moved_flag", n)
    bad = np.where((moved != 0) != acc)[0]
    for i in bad[:3]:
        res.violation("moved-flag", f"position_moved={int(moved[i])} but accepted={bool(acc[i])}: {wit(i)}", wit(i))
    res.mon("prob_in_unit", n)
    bad = np.where(~((prob >= 0) & (prob <= 1)))[0]
    for i in bad[:3]:
        res.violation("prob-range", f"acceptance probability outside [0,1]: {wit(i)}", wit(i))
    res.mon("nan_code", n)
    bad = np.where((code == 90) != isn)[0]
    for i in bad[:3]:
        res.violation("nan-code", f"error code {int(code[i])} but ratio NaN={bool(isn[i])}: {wit(i)}", wit(i))
    bad = np.where((code != 90) & (code != 0))[0]
    for i in bad[:3]:
        res.violation("nan-code", f"undocumented error code: {wit(i)}", wit(i))
    res.mon("reported_prob", n)
    tol = 1e-5 * np.maximum(exp_alpha, 1e-30) + 1e-37
    bad = np.where(off(prob.astype(np.float64), exp_alpha, tol))[0]
    for i in bad[:3]:
        res.violation("reported-prob", f"reported {float(prob[i])!r}, rule gives {float(exp_alpha[i])!r}: {wit(i)}", wit(i))
    # zero-probability never accepted (NaN ratio or exp(d)==0 exactly, i.e. d=-inf)
    zero = isn | (d == -np.inf)
    res.mon("alpha_zero_rejected", int(zero.sum()))
    bad = np.where(zero & acc)[0]
    for i in bad[:3]:
        mech = "nan-ratio-accepted" if isn[i] else "zero-probability-accepted"
        res.violation(mech, f"proposal with acceptance probability 0 accepted: {wit(i)}", wit(i))
    one = (~isn) & (d >= 0)
    res.mon("alpha_one_accepted", int(one.sum()))
    bad = np.where(one & ~acc)[0]
    for i in bad[:3]:
        res.violation("probability-one-rejected", f"proposal with acceptance probability 1 rejected: {wit(i)}", wit(i))
    return acc, exp_alpha, isn


def rand_vals(rng, n):
    """lp, lp', c with a generous share of special values."""
    def col():
        v = rng.normal(0, 3, n).astype(np.float32)
        u = rng.random(n)
        v[u < 0.05] = -np.inf
        v[(u >= 0.05) & (u < 0.08)] = np.inf
        v[(u >= 0.08) & (u < 0.11)] = np.nan
        v[(u >= 0.11) & (u < 0.14)] = 0.0
        v[(u >= 0.14) & (u < 0.17)] = rng.choice([-1e30, 1e30, -88.0, 88.0, -104.0], int(((u >= 0.14) & (u < 0.17)).sum()))
        return v
    lp, lpp, c = col(), col(), col()
    # large log-densities (|lp| up to 1e7) a few float32 steps apart, with a small non-zero correction: the documented
    # association (lp' - lp) + c is exact in the difference, any other association loses the correction or the difference
    k = max(1, n // 6)
    idx = rng.choice(n, size=k, replace=False)
    base = (-np.exp(rng.uniform(np.log(1e2), np.log(1e7), k))).astype(np.float32)
    steps = rng.integers(-3, 4, k)
    prop = base.copy()
    for _ in range(3):
        prop = np.where(steps > 0, np.nextafter(prop, np.float32(np.inf)), np.where(steps < 0, np.nextafter(prop, np.float32(-np.inf)), prop))
        steps = steps - np.sign(steps)
    lp[idx], lpp[idx] = base, prop.astype(np.float32)
    c[idx] = (rng.choice([-1.0, 1.0], k) * np.exp(rng.uniform(np.log(1e-4), np.log(2.0), k))).astype(np.float32)
    return lp, lpp, c


def case_tuples(case, res):
    jax, jnp, call, jcall, vcall, x0 = S()
    rng = rng_for(case["seed"], "tuples", case["idx"])
    n = case["n"]
    lp, lpp, c = rand_vals(rng, n)
    seeds = rng.integers(0, 2 ** 31 - 1, n)
    keys = jax.vmap(jax.random.PRNGKey)(jnp.asarray(seeds))
    out = vcall(keys, jnp.asarray(lp), jnp.asarray(lpp), jnp.asarray(c))
    acc, alpha, isn = judge(res, lambda i: int(seeds[i]), lp, lpp, c, out, "vmap")
    for i in range(n):
        if isn[i] or (0 < alpha[i] < 1) or not np.isfinite(lp[i] + lpp[i] + c[i]):
            res.nontriv(("t", int(seeds[i]), repr(float(lp[i])), repr(float(lpp[i])), repr(float(c[i]))))
    # eager and jit on a subset; results must agree bit-for-bit with vmap
    m = case.get("n_eager", 40)
    o = [np.asarray(x) for x in out]
    for i in range(m):
        for tag, f in (("eager", call), ("jit", jcall)):
            r = f(keys[i], jnp.asarray(lp[i]), jnp.asarray(lpp[i]), jnp.asarray(c[i]))
            r1 = [np.asarray(x)[None] for x in r]
            judge(res, lambda _i: int(seeds[i]), lp[i:i + 1], lpp[i:i + 1], c[i:i + 1], r1, tag)
            res.mon("modes_agree")
            same = (int(r1[0][0]) == int(o[0][i]) and bits(r1[1])[0] == bits(o[1])[i]
                    and int(r1[2][0]) == int(o[2][i]) and np.array_equal(bits(r1[4][0]), bits(o[4][i])))
            if not same:
                res.violation("modes-differ", f"{tag} vs vmap differ for seed {int(seeds[i])}: "
                              f"{[x.tolist() for x in r1]} vs {[x[i].tolist() for x in o]}",
                              {"seed": int(seeds[i])})
    res.evals = n
    res.sample = {"seed": int(seeds[0]), "lp": float(lp[0]), "lp_prop": float(lpp[0]),
                  "corr": float(c[0]), "code": int(o[0][0]), "prob": float(o[1][0]), "moved": int(o[2][0])}


def ladder_values():
    """(lp', label) rungs with lp = 0, c = 0: increasing acceptance probability."""
    rungs = [(-np.inf, "0")]
    for e in LADDER_EXP:
        rungs.append((np.float32(e * np.log(2.0)), f"2^{e}"))
    for p in (0.75, 0.9, 0.99, 0.999):
        rungs.append((np.float32(np.log(p)), str(p)))
    rungs.append((np.float32(np.log1p(-2.0 ** -24)), "1-2^-24"))
    rungs.append((np.float32(0.0), "1"))
    rungs.append((np.float32(5.0), ">1"))
    rungs.append((np.inf, "inf"))
    return rungs


def case_ladder(case, res):
    jax, jnp, call, jcall, vcall, x0 = S()
    rng = rng_for(case["seed"], "ladder", case["idx"])
    n = case["n"]
    seeds = rng.integers(0, 2 ** 31 - 1, n)
    keys = jax.vmap(jax.random.PRNGKey)(jnp.asarray(seeds))
    rungs = ladder_values()
    accs = []
    alphas = []
    # the same ladder realised three ways: through lp', through lp, through the correction
    route = case["idx"] % 3
    for v, lab in rungs:
        z = np.zeros(n, np.float32)
        vv = np.full(n, v, np.float32)
        if route == 0:
            lp, lpp, c = z, vv, z
        elif route == 1:
            lp, lpp, c = -vv, z, z
        else:
            lp, lpp, c = z + 1.5, z + 1.5, vv
        out = vcall(keys, jnp.asarray(lp), jnp.asarray(lpp), jnp.asarray(c))
        acc, alpha, _ = judge(res, lambda i: int(seeds[i]), lp, lpp, c, out, f"ladder{route}")
        accs.append(acc)
        alphas.append(alpha[0])
    A = np.stack(accs)  # [rung, key]
    res.mon("ladder_monotone", n)
    nonmono = np.where(np.any(A[:-1] & ~A[1:], axis=0))[0]
    for i in nonmono[:3]:
        res.violation("ladder-nonmonotone",
                      f"seed {int(seeds[i])}: accepted at a lower probability but rejected at a higher one: "
                      f"{dict(zip([l for _, l in rungs], A[:, i].tolist()))}", {"seed": int(seeds[i])})
    # frequency per rung ~ Binomial(n, alpha)
    for j, (v, lab) in enumerate(rungs):
        a = float(alphas[j])
        k = int(A[j].sum())
        if 0 < a < 1 and n * a * (1 - a) > 5:
            z = (k - n * a) / np.sqrt(n * a * (1 - a))
            res.mon("frequency")
            if abs(z) > 5.5:
                res.violation("frequency", f"rung {lab}: {k}/{n} accepted, alpha={a}, z={z:.1f}",
                              {"rung": lab, "k": k, "n": n})
    for i in range(min(n, 200)):
        res.nontriv(("ladder", route, int(seeds[i])))
    res.evals = n * len(rungs)
    res.sample = {"route": ["via lp'", "via lp", "via correction"][route], "seed": int(seeds[0]),
                  "ladder": dict(zip([l for _, l in rungs], A[:, 0].tolist()))}


def find_zero_keys(seed_lo, seed_hi, res=None, chunk=1 << 20):
    """Black-box: seeds whose key accepts at alpha = 2^-100 (draw exactly 0)."""
    jax, jnp, call, jcall, vcall, x0 = S()
    hits = []
    lpp = np.float32(-100 * np.log(2.0))
    for lo in range(seed_lo, seed_hi, chunk):
        hi = min(lo + chunk, seed_hi)
        seeds = jnp.arange(lo, hi)
        keys = jax.vmap(jax.random.PRNGKey)(seeds)
        n = hi - lo
        out = vcall(keys, jnp.zeros(n, jnp.float32), jnp.full(n, lpp, jnp.float32), jnp.zeros(n, jnp.float32))
        moved = np.asarray(out[4])[:, 0] == 1.0
        for i in np.where(moved)[0]:
            hits.append(lo + int(i))
        if res is not None:
            res.ev("keys_searched", n)
    return hits


SCENARIOS = [
    # (label, lp, lp', c, expect_code90)
    ("lp'=-inf", 0.0, -np.inf, 0.0, False),
    ("lp'=-inf,c=5", 1.0, -np.inf, 5.0, False),
    ("lp=lp'=-inf", -np.inf, -np.inf, 0.0, True),
    ("lp=lp'=+inf", np.inf, np.inf, 0.0, True),
    ("c=nan", 0.0, 1.0, np.nan, True),
    ("lp'=nan", 0.0, np.nan, 0.0, True),
    ("lp=nan", np.nan, 0.0, 0.0, True),
    ("c=-inf", 0.0, 3.0, -np.inf, False),
    ("lp=+inf", np.inf, 0.0, 0.0, False),
    ("underflow", 0.0, -200.0, 0.0, False),  # exp(-200) == 0 in float32: probability 0
]


def case_boundary(case, res):
    jax, jnp, call, jcall, vcall, x0 = S()
    cand = list(case.get("hints", []))
    verified = []
    if cand:
        lpp = np.float32(-100 * np.log(2.0))
        keys = jax.vmap(jax.random.PRNGKey)(jnp.asarray(cand))
        out = vcall(keys, jnp.zeros(len(cand), jnp.float32), jnp.full(len(cand), lpp, jnp.float32),
                    jnp.zeros(len(cand), jnp.float32))
        moved = np.asarray(out[4])[:, 0] == 1.0
        verified = [s for s, m in zip(cand, moved) if m]
        res.ev("hint_keys_verified", len(verified))
    if "search" in case:
        lo, hi = case["search"]
        if not verified or case.get("always_search"):
            found = find_zero_keys(lo, hi, res)
            res.ev("zero_keys_found_by_search", len(found))
            verified = sorted(set(verified) | set(found))
    res.extra = {"zero_keys": verified}
    for s in verified:
        key = jax.random.PRNGKey(s)
        for lab, lp, lpp, c, code90 in SCENARIOS:
            for tag, f in (("eager", call), ("jit", jcall)):
                r = f(key, jnp.float32(lp), jnp.float32(lpp), jnp.float32(c))
                r1 = [np.asarray(x)[None] for x in r]
                judge(res, lambda _i: s, np.float32([lp]), np.float32([lpp]), np.float32([c]), r1,
                      f"boundary:{lab}:{tag}")
                res.mon("boundary_key_scenarios")
            res.nontriv(("boundary", s, lab))
        # a zero draw must accept any positive probability
        r = jcall(key, jnp.float32(0), jnp.float32(-60.0), jnp.float32(0))
        r1 = [np.asarray(x)[None] for x in r]
        if not (r1[4][0, 0] == 1.0):
            res.violation("zero-draw-rejected-positive", f"seed {s}: zero draw rejected alpha=exp(-60)", {"seed": s})
    res.evals = max(1, len(verified) * len(SCENARIOS))
    res.sample = {"zero_draw_seeds": verified[:5], "scenarios": [s[0] for s in SCENARIOS]}


def case_strict(case, res):
    """Keys whose uniform draw equals the acceptance probability exactly must be rejected
    ("lies below").  The draw is identified as jax.random.uniform(key) and *confirmed*
    black-box (accept just above, reject just below); keys where that fails are skipped."""
    jax, jnp, call, jcall, vcall, x0 = S()
    rng = rng_for(case["seed"], "strict", case["idx"])
    n = case["n"]
    seeds = rng.integers(0, 2 ** 31 - 1, n)
    keys = jax.vmap(jax.random.PRNGKey)(jnp.asarray(seeds))
    u = np.asarray(jax.vmap(jax.random.uniform)(keys), np.float32)
    sel = np.where(u > 0.4)[0]
    # candidates d = log(u) +- few ulps; keep those whose *reported* probability == u
    base = np.log(u[sel].astype(np.float64)).astype(np.float32)
    cands = [base]
    lo = base.copy()
    hi = base.copy()
    for _ in range(3):
        lo = np.nextafter(lo, np.float32(-np.inf))
        hi = np.nextafter(hi, np.float32(np.inf))
        cands += [lo.copy(), hi.copy()]
    hit_d = np.full(len(sel), np.nan, np.float32)
    for d in cands:
        out = vcall(keys[sel], jnp.zeros(len(sel), jnp.float32), jnp.asarray(d), jnp.zeros(len(sel), jnp.float32))
        prob = np.asarray(out[1], np.float32)
        eq = bits(prob) == bits(u[sel])
        hit_d = np.where(eq & np.isnan(hit_d), d, hit_d)
    ok = ~np.isnan(hit_d)
    idx = sel[ok]
    d_eq = hit_d[ok]
    if len(idx) == 0:
        res.skip("no exact-equality probe constructible")
        res.evals = n
        return
    # confirm the draw black-box: reject at prob just below u, accept just above u
    def run(dvals):
        o = vcall(keys[idx], jnp.zeros(len(idx), jnp.float32), jnp.asarray(dvals), jnp.zeros(len(idx), jnp.float32))
        return np.asarray(o[4])[:, 0] == 1.0, np.asarray(o[1], np.float32)
    below, pb = run(np.log(np.maximum(u[idx].astype(np.float64) - 3e-7, 1e-9)).astype(np.float32))
    above, pa = run(np.log(np.minimum(u[idx].astype(np.float64) + 3e-7, 1.0)).astype(np.float32))
    confirmed = (~below) & above & (pb < u[idx]) & (pa > u[idx])
    res.ev("draw_identified", int(confirmed.sum()))
    res.skip("uniform draw not identified", int((~confirmed).sum()))
    acc_eq, p_eq = run(d_eq)
    for j in np.where(confirmed)[0]:
        res.mon("strict_at_equality")
        res.nontriv(("strict", int(seeds[idx[j]])))
        if acc_eq[j]:
            res.violation("equal-draw-accepted",
                          f"seed {int(seeds[idx[j]])}: uniform draw {float(u[idx[j]])!r} equals the acceptance "
                          f"probability {float(p_eq[j])!r} (log ratio {float(d_eq[j])!r}) but the proposal was accepted",
                          {"seed": int(seeds[idx[j]]), "u": float(u[idx[j]]), "log_ratio": float(d_eq[j])})
    res.evals = n
    res.sample = {"seed": int(seeds[idx[0]]), "u": float(u[idx[0]]), "log_ratio": float(d_eq[0]),
                  "accepted_at_equality": bool(acc_eq[0])}


def gen_cases(tier, seed):
    cases = []
    q = tier == "quick"
    for i in range(8 if q else 320):
        cases.append({"kind": "tuples", "idx": i, "n": 400 if q else 2000, "n_eager": 25 if q else 60, "seed": seed, "cost": 3})
    for i in range(6 if q else 160):
        cases.append({"kind": "ladder", "idx": i, "n": 4000 if q else 40000, "seed": seed, "cost": 2})
    for i in range(4 if q else 96):
        cases.append({"kind": "strict", "idx": i, "n": 3000 if q else 30000, "seed": seed, "cost": 2})
    if q:
        # hints verified black-box; if none verifies (key use changed) a 2^25 search runs
        cases.append({"kind": "boundary", "hints": HINT_SEEDS, "search": [0, 1 << 25], "cost": 6})
    else:
        W = 16
        span = (1 << 27) // W
        for w in range(W):
            cases.append({"kind": "boundary", "hints": HINT_SEEDS if w == 0 else [],
                          "search": [w * span, (w + 1) * span], "always_search": True, "cost": 10})
    return cases


def run_case(case):
    res = CaseResult(case)
    {"tuples": case_tuples, "ladder": case_ladder, "boundary": case_boundary,
     "strict": case_strict}[case["kind"]](case, res)
    return res


def finalize(ctx):
    zero = set()
    for r in ctx.results:
        if r.get("extra") and "zero_keys" in r["extra"]:
            zero.update(r["extra"]["zero_keys"])
    ctx.notes["zero_draw_seeds_observed"] = sorted(zero)[:40]
    ctx.notes["n_zero_draw_seeds"] = len(zero)
    if not zero:
        ctx.inconclusive.append("no zero-draw boundary key observed (hints failed and search found none)")
