"""C12 — mass-matrix adaptation is aligned with the parameters it scales."""

from __future__ import annotations

import itertools

import numpy as np

from vlib.common import CaseResult, exc_mech, rng_for
from vlib.probes import mk_epochs

ID = "C12"
RULE = (
    "(a) protocol level: NUTS/HMC kernel.tune(...) after a slow-adaptation epoch with synthetic histories whose "
    "coordinate variances are spread over four decades; key sets of 1-4 keys with shapes (),(2,),(3,),(2,2), "
    "every permutation of the listing order, diagonal and dense mode, histories that also contain other "
    "kernels' keys; (b) engine level: real sampling with 1-3 slow epochs, a co-existing kernel on other keys, "
    "the engine supplying the history (also two gradient-based kernels with user identifiers in non-alphabetical order, "
    "mixed-case key names, histories with fewer draws than coordinates); tuned matrix read from the stored kernel states. Flat coordinates are "
    "identified through ravel_pytree(kernel.position(state)) with marker values. Also: schedules ending with a slow epoch and extended by append_epoch afterwards. Round 5: warm-up thinning > 1; coordinates with variance below float32 eps or exactly 0. non-trivial = listing order "
    "that is not the sorted order and two coordinates with variance ratio > 10; distinct by (keys, order, mode)"
)
REQUIRED = ["entry_i_belongs_to_coordinate_i", "documented_regulariser", "independent_of_key_order",
            "independent_of_other_kernels", "engine_tuned_matrix_matches_history"]
ANCHORS = ["goose/mm.py:tune_inv_mm_diag", "goose/mm.py:tune_inv_mm_full", "goose/nuts.py:NUTSKernel._tune_slow",
           "goose/hmc.py:HMCKernel._tune_slow", "goose/engine.py:Engine._tune_kernels"]
ASSUMPTIONS = ["blackjax flattens the kernel's position with ravel_pytree (trusted); the regulariser is the documented +1e-3"]
WORKERS = 16
TIMEOUT = {"quick": 1500, "thorough": 10800}

# mixed-case names: the pytree (hence flat) order of dict keys is the plain string order, "Zeta" < "alpha"
SHAPES = {"alpha": (), "zeta": (2,), "beta": (3,), "mat": (2, 2), "gamma": (), "Zeta": (), "Sigma": (2,)}


def coord_map(kernel, state):
    """For flat coordinate i of the kernel's position: (key, flat index within key)."""
    import jax.numpy as jnp
    from jax.flatten_util import ravel_pytree

    marks = {}
    base = 0
    owner = []
    for k in kernel.position_keys:
        n = int(np.prod(np.shape(state[k]))) if np.shape(state[k]) else 1
        marks[k] = jnp.asarray(np.arange(base, base + n, dtype=np.float32).reshape(np.shape(state[k])))
        owner += [(k, j) for j in range(n)]
        base += n
    st = dict(state)
    st.update(marks)
    flat, _ = ravel_pytree(kernel.position(st))
    return [owner[int(v)] for v in np.asarray(flat)]


def make_history(rng, keys, T, extra_keys=()):
    """history[k]: [T, *shape]; coordinate scales spread over four decades; correlated pairs for dense mode."""
    hist = {}
    scales = {}
    for k in list(keys) + list(extra_keys):
        shp = SHAPES[k]
        n = int(np.prod(shp)) if shp else 1
        sc = np.exp(rng.uniform(np.log(0.03), np.log(300.0), size=n))
        off = rng.normal(size=n) * 3
        # now and then a coordinate on a tiny scale (variance far below the regulariser, below float32 eps) or one that
        # never moved in the epoch: its entry is the documented `variance + 1e-3`, i.e. about 1e-3
        tiny = rng.random(n) < 0.12
        sc = np.where(tiny, np.exp(rng.uniform(np.log(1e-5), np.log(3e-4), size=n)), sc)
        sc = np.where(rng.random(n) < 0.04, 0.0, sc)
        off = np.where(sc < 1e-3, 0.0, off)
        # ... and coordinates located far from zero relative to their spread (mean ~ +-200, sd ~ 0.1): the sample
        # (co)variance is about deviations from the mean, whatever the location
        far = (rng.random(n) < 0.15) & (sc >= 1e-3)
        sc = np.where(far, rng.uniform(0.05, 0.5, size=n), sc)
        off = np.where(far, rng.choice([-1.0, 1.0], size=n) * rng.uniform(100.0, 300.0, size=n), off)
        z = rng.normal(size=(T, n))
        x = z * sc + off
        hist[k] = x.reshape((T,) + shp).astype(np.float32)
        scales[k] = sc
    return hist


def flat_matrix(hist, cmap):
    cols = []
    for k, j in cmap:
        a = np.asarray(hist[k], np.float64)
        cols.append(a.reshape(a.shape[0], -1)[:, j])
    return np.stack(cols, axis=1)


def judge_matrix(res, M, X, diag, what, w):
    """M: tuned inverse mass matrix; X: [T, d] history in flat coordinate order."""
    v = X.var(axis=0, ddof=1)
    d = X.shape[1]
    Md = np.asarray(M, np.float64)
    res.mon("entry_i_belongs_to_coordinate_i")
    if diag:
        if Md.shape != (d,):
            res.violation("mm-shape", f"{what}: inverse mass vector has shape {Md.shape}, position has {d} coordinates", w)
            return
        dg = Md
    else:
        if Md.shape != (d, d):
            res.violation("mm-shape", f"{what}: inverse mass matrix has shape {Md.shape}, position has {d} coordinates", w)
            return
        dg = np.diag(Md)
    ratio = np.abs(np.log(np.maximum(dg, 1e-30) / np.maximum(v + 1e-3, 1e-30)))
    if np.any(~(ratio <= np.log(1.5))):
        i = int(np.argmax(np.where(np.isnan(ratio), np.inf, ratio)))
        res.violation("mm-misaligned", f"{what}: entry {i} of the tuned inverse mass matrix is {dg[i]:.5g} but the variance of flat "
                      f"coordinate {i} of the kernel's position in the recorded history is {v[i]:.5g} "
                      f"(all entries {np.round(dg, 4).tolist()} vs variances {np.round(v, 4).tolist()})", w)
        return
    res.mon("documented_regulariser")
    if diag:
        exp = v + 1e-3
        if not np.allclose(dg, exp, rtol=2e-3, atol=1e-6):
            res.violation("mm-regulariser", f"{what}: diagonal {dg.tolist()} != sample variance + 1e-3 = {exp.tolist()}", w)
    else:
        C = np.cov(X, rowvar=False).reshape(d, d) + 1e-3 * np.eye(d)
        sc = np.sqrt(np.outer(np.diag(C), np.diag(C)))
        if not np.all(np.abs(Md - C) <= 3e-3 * sc + 1e-6):
            i, j = np.unravel_index(np.argmax(np.abs(Md - C) / sc), C.shape)
            res.violation("mm-covariance", f"{what}: entry ({i},{j}) = {Md[i, j]:.5g}, regularised sample covariance = {C[i, j]:.5g}", w)


def case_protocol(case, res):
    import jax
    import jax.numpy as jnp
    import liesel.goose as gs
    from liesel.goose.epoch import EpochConfig, EpochType

    rng = rng_for(case["seed"], "c12-proto", case["idx"])
    keys = case["keys"]
    diag = case["diag"]
    T = case["T"]
    extra = [k for k in SHAPES if k not in keys][: case["n_extra"]]
    hist_np = make_history(rng, keys, T, extra)
    state = {k: jnp.zeros(SHAPES[k], jnp.float32) for k in SHAPES}
    iface = gs.DictInterface(lambda s: -0.5 * sum(jnp.sum(s[k] ** 2) for k in SHAPES))
    epoch = EpochConfig(EpochType.SLOW_ADAPTATION, T, 1, None).to_state(1, 1)
    epoch.advance_time(T)
    results = {}
    orders = list(itertools.permutations(keys)) if len(keys) <= 3 else [tuple(keys), tuple(sorted(keys)), tuple(reversed(keys))]
    for order in orders:
        K = gs.NUTSKernel if case["kernel"] == "nuts" else gs.HMCKernel
        ker = K(list(order), initial_step_size=0.1, mm_diag=diag)
        ker.set_model(iface)
        ks = ker.init_state(jax.random.PRNGKey(0), state)
        hist = {k: jnp.asarray(hist_np[k]) for k in (list(order) + (extra if case["with_extra"] else []))}
        out = ker.tune(jax.random.PRNGKey(1), ks, state, epoch, hist)
        M = np.asarray(out.kernel_state.inverse_mass_matrix)
        cmap = coord_map(ker, state)
        X = flat_matrix(hist_np, cmap)
        w = {"kernel": case["kernel"], "listing_order": list(order), "diag": diag, "flat_coordinates": [f"{k}[{j}]" for k, j in cmap],
             "history_keys": list(hist)}
        judge_matrix(res, M, X, diag, f"{case['kernel']}.tune with position_keys={list(order)}", w)
        results[order] = (M, cmap)
        v = X.var(axis=0, ddof=1)
        if list(order) != sorted(order) and v.max() / v.min() > 10:
            res.nontriv(("proto", case["kernel"], order, diag))
    # the tuned matrix does not depend on the listing order (compare by coordinate label)
    ref_order = orders[0]
    Mr, cr = results[ref_order]
    for order, (M, cm) in results.items():
        res.mon("independent_of_key_order")
        idx = [cm.index(c) for c in cr]
        Mp = M[idx] if diag else M[np.ix_(idx, idx)]
        if Mp.shape != Mr.shape or not np.allclose(Mp, Mr, rtol=1e-4, atol=1e-7):
            res.violation("mm-depends-on-key-order", f"tuned matrix for listing order {list(order)} differs from the one for "
                          f"{list(ref_order)} (per coordinate): {np.round(np.diag(Mp) if not diag else Mp, 4).tolist()} vs "
                          f"{np.round(np.diag(Mr) if not diag else Mr, 4).tolist()}", {"orders": [list(order), list(ref_order)]})
    # ... nor on other kernels' parameters in the history
    if extra:
        order = orders[-1]
        K = gs.NUTSKernel if case["kernel"] == "nuts" else gs.HMCKernel
        ker = K(list(order), initial_step_size=0.1, mm_diag=diag)
        ker.set_model(iface)
        ks = ker.init_state(jax.random.PRNGKey(0), state)
        h1 = {k: jnp.asarray(hist_np[k]) for k in order}
        h2 = {k: jnp.asarray(hist_np[k]) for k in (extra + list(order))}
        M1 = np.asarray(ker.tune(jax.random.PRNGKey(1), ks, state, epoch, h1).kernel_state.inverse_mass_matrix)
        M2 = np.asarray(ker.tune(jax.random.PRNGKey(1), ks, state, epoch, h2).kernel_state.inverse_mass_matrix)
        res.mon("independent_of_other_kernels")
        if M1.shape != M2.shape or not np.allclose(M1, M2, rtol=1e-5):
            res.violation("mm-depends-on-other-keys", f"tuned matrix changes when the history also holds other kernels' keys {extra}",
                          {"order": list(order)})
    res.sample = {"kind": "protocol", "kernel": case["kernel"], "keys": keys, "diag": diag, "orders": len(orders)}
    res.evals = len(orders)


def case_engine(case, res):
    import jax.numpy as jnp
    import liesel.goose as gs

    rng = rng_for(case["seed"], "c12-eng", case["idx"])
    keys = case["keys"]
    diag = case["diag"]
    sds = {k: np.exp(rng.uniform(np.log(0.1), np.log(8.0), size=SHAPES[k] if SHAPES[k] else None)) for k in SHAPES}

    def lp(s):
        return -0.5 * sum(jnp.sum((s[k] / jnp.asarray(sds[k], jnp.float32)) ** 2) for k in SHAPES)

    b = gs.EngineBuilder(seed=case["engine_seed"], num_chains=2)
    b.show_progress = False
    b.store_kernel_states = True
    b.set_model(gs.DictInterface(lp))
    b.set_initial_values({k: jnp.asarray(rng.normal(size=SHAPES[k]), jnp.float32) for k in SHAPES})
    K = gs.NUTSKernel if case["kernel"] == "nuts" else gs.HMCKernel
    kw = {"max_treedepth": 4} if case["kernel"] == "nuts" else {"num_integration_steps": 4}
    ker = K(keys, initial_step_size=0.2, mm_diag=diag, **kw)
    others = [k for k in SHAPES if k not in keys]
    kers = [ker]
    if case["co_kernel"] and others:
        if case["idx"] % 2:
            # a second gradient-based kernel with its own mass matrix, and user identifiers in non-alphabetical order
            K2 = gs.HMCKernel if case["kernel"] == "nuts" else gs.NUTSKernel
            kw2 = {"num_integration_steps": 3} if K2 is gs.HMCKernel else {"max_treedepth": 3}
            co = K2(others[:2], initial_step_size=0.2, mm_diag=diag, **kw2)
            kers.insert(case["co_first"], co)
            for j, k_ in enumerate(kers):
                k_.identifier = f"user_{'zyx'[j]}"
        else:
            kers.insert(case["co_first"], gs.RWKernel(others[:2], initial_step_size=0.5))
    for k_ in kers:
        b.add_kernel(k_)
    spec = case["spec"]
    if case.get("append_tail"):
        # the configured schedule ends with the last slow-adaptation epoch; the remaining epochs are appended afterwards
        n_head = max(i_ for i_, e_ in enumerate(spec) if e_[0] == 2) + 1
        b.set_epochs(mk_epochs(spec[:n_head]))
        eng = b.build()
        eng.sample_all_epochs()
        for e_ in mk_epochs(spec[n_head:])[1:]:
            eng.append_epoch(e_)
        res.ev("epochs_appended_after_final_slow_epoch", len(spec) - n_head)
        eng.sample_all_epochs()
    else:
        b.set_epochs(mk_epochs(spec))
        eng = b.build()
        eng.sample_all_epochs()
    r = eng.get_results()
    state0 = {k: jnp.zeros(SHAPES[k], jnp.float32) for k in SHAPES}
    all_ks = r.kernel_states.unwrap().combine_all().unwrap()
    for kern in [k_ for k_ in kers if hasattr(k_, "mm_diag")]:
        kidx = kers.index(kern)
        kkeys = list(kern.position_keys)
        imm = np.asarray(all_ks[kidx].inverse_mass_matrix)      # [C, T, ...]
        cmap = coord_map(kern, state0)
        t0 = 1      # kernel-state snapshots are stored for every transition (only positions are thinned)
        w = {"kernel": type(kern).__name__, "listing_order": kkeys, "diag": diag, "schedule": spec, "co_kernel": case["co_kernel"], "tail_appended": bool(case.get("append_tail")),
             "identifiers": [k_.identifier for k_ in kers], "flat_coordinates": [f"{k}[{j}]" for k, j in cmap]}
        for ei, (ty, d, _k) in enumerate(spec, start=1):
            if ty == 2 and t0 + d < imm.shape[1]:
                pos = r.positions.get_specific_chain(ei).get().unwrap()
                for c in range(2):
                    hist = {k: np.asarray(pos[k])[c] for k in kkeys}
                    X = flat_matrix(hist, cmap)
                    M = imm[c, t0 + d]   # first snapshot of the following epoch
                    res.mon("engine_tuned_matrix_matches_history")
                    judge_matrix(res, M, X, diag, f"engine run, kernel {kern.identifier}, slow epoch {ei}, chain {c}", w)
                    v = X.var(axis=0, ddof=1)
                    if kkeys != sorted(kkeys) and v.max() / max(v.min(), 1e-12) > 10:
                        res.nontriv(("eng", type(kern).__name__, tuple(kkeys), diag, ei))
            t0 += d
    w = {"kernel": case["kernel"], "listing_order": keys, "diag": diag, "schedule": spec, "co_kernel": case["co_kernel"]}
    res.sample = dict(w, kind="engine")


def gen_cases(tier, seed):
    q = tier == "quick"
    cases = []
    names = list(SHAPES)
    for i in range(120 if q else 6000):
        rng = rng_for(seed, "c12-gen", i)
        k = int(rng.integers(1, 5))
        keys = [str(x) for x in rng.choice(names, size=k, replace=False)]
        cases.append({"kind": "protocol", "idx": i, "seed": seed, "keys": keys, "diag": bool(i % 2), "kernel": "nuts" if i % 4 < 2 else "hmc",
                      "T": int(rng.integers(8, 60)) if i % 5 else int(rng.integers(3, 8)), "n_extra": int(rng.integers(0, 3)), "with_extra": bool(rng.random() < 0.6), "cost": 2})
    for i in range(8 if q else 200):
        rng = rng_for(seed, "c12-geneng", i)
        k = int(rng.integers(2, 4))
        keys = [str(x) for x in rng.choice(names, size=k, replace=False)]
        if keys == sorted(keys):
            keys = keys[::-1]
        n_slow = int(rng.integers(1, 4))
        spec = [[1, 4, 1]]
        for _ in range(n_slow):
            th = int(rng.choice([1, 1, 2, 3]))       # warm-up thinning: the history is the epoch's *recorded* draws
            spec.append([2, int(rng.integers(10, 25)) * th, th])
        spec += [[1, 4, 1], [4, 4, 1]]
        cases.append({"kind": "engine", "idx": i, "seed": seed, "keys": keys, "diag": bool(i % 2), "kernel": "nuts" if i % 4 < 2 else "hmc",
                      "spec": spec, "co_kernel": bool(rng.random() < 0.7), "co_first": int(rng.integers(0, 2)),
                      "engine_seed": int(rng.integers(2 ** 30)), "append_tail": bool(i % 2), "cost": 25})
    return cases


def run_case(case):
    res = CaseResult(case)
    res.evals = 1
    try:
        (case_protocol if case["kind"] == "protocol" else case_engine)(case, res)
    except Exception as exc:  # noqa: BLE001
        mech, text = exc_mech(exc)
        if mech is None:
            raise
        res.violation(mech, f"raised\n{text}", case)
    return res
