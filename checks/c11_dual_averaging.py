"""C11 — step-size adaptation follows dual averaging, frozen outside adaptation epochs."""

from __future__ import annotations

import numpy as np

from vlib.common import CaseResult, exc_mech, off, rng_for
from vlib.probes import mk_epochs

ID = "C11"
RULE = (
    "(a) direct da_init/da_step/da_finalize calls on random states and acceptance sequences against a "
    "float64 reference of the Hoffman-Gelman/Stan recurrence; (b) engine runs of RW, MH (tuning on/off), "
    "IWLS, HMC, NUTS with random DA constants, initial step sizes and schedules with several fast/slow "
    "adaptation, burn-in and posterior epochs: the recurrence is replayed over the stored kernel states "
    "(one per transition) and stored acceptance probabilities; restart value, epoch-end installation and "
    "frozen-epoch constancy are judged; (c) monotonicity on random (state, a1<a2) pairs. Also: targets that are NaN / -inf on a half-line (proposals rejected with acceptance 0 during adaptation); dual-averaging constants assigned to the kernel's attributes after construction. non-trivial = "
    "engine run with >= 2 adaptation epochs and >= 1 frozen epoch; distinct by configuration hash"
)
REQUIRED = ["direct_recurrence", "engine_recurrence", "restart_from_current_step", "averaged_step_installed",
            "monotone_in_acceptance", "frozen_outside_adaptation"]
ANCHORS = ["goose/da.py:da_step", "goose/da.py:da_init", "goose/da.py:da_finalize", "goose/rw.py:RWKernel._adaptive_transition",
           "goose/iwls.py:IWLSKernel._adaptive_transition", "goose/nuts.py:NUTSKernel._adaptive_transition",
           "goose/hmc.py:HMCKernel._adaptive_transition", "goose/mh_kernel.py:MHKernel._adaptive_transition"]
ASSUMPTIONS = ["across boundaries of frozen epochs the step size is re-derived as exp(log eps): compared with rtol 1e-5",
               "after a slow-adaptation epoch HMC/NUTS rescale the step by sqrt(tr M_old / tr M_new): that factor is accepted"]
WORKERS = 16
TIMEOUT = {"quick": 1500, "thorough": 10800}


class S:
    pass


def ref_init(step):
    return {"step": float(step), "err": 0.0, "lavg": float(np.log(step)), "mu": float(np.log(10 * step))}


def ref_step(st, a, tie, target, gamma, kappa, t0):
    t = tie + 1
    eta = t ** (-kappa)
    err = st["err"] + (target - a)
    ls = st["mu"] - err * np.sqrt(t) / (gamma * (t0 + t))
    return {"step": float(np.exp(ls)), "err": float(err), "lavg": float((1 - eta) * st["lavg"] + eta * ls), "mu": st["mu"]}


def case_direct(case, res):
    import jax.numpy as jnp
    from liesel.goose.da import da_finalize, da_init, da_step

    rng = rng_for(case["seed"], "c11-direct", case["idx"])
    for _ in range(case["n"]):
        step0 = float(np.exp(rng.uniform(np.log(1e-3), np.log(10))))
        target = float(rng.uniform(0.1, 0.95))
        gamma = float(rng.choice([0.05, 0.1, 0.5, 1.0]))
        kappa = float(rng.choice([0.6, 0.75, 0.9]))
        t0 = int(rng.choice([1, 10, 30]))
        T = int(rng.integers(1, 40))
        ks = S()
        ks.step_size = jnp.asarray(step0, jnp.float32)
        da_init(ks)
        st = ref_init(float(np.float32(step0)))
        ok = True
        for i in range(T):
            a = float(np.float32(rng.choice([rng.uniform(0, 1), 0.0, 1.0], p=[0.8, 0.1, 0.1])))
            da_step(ks, jnp.asarray(a, jnp.float32), i, target, gamma, kappa, t0)
            st = ref_step(st, a, i, target, gamma, kappa, t0)
            res.mon("direct_recurrence")
            got = (float(ks.step_size), float(ks.error_sum), float(ks.log_avg_step_size), float(ks.mu))
            exp = (st["step"], st["err"], st["lavg"], st["mu"])
            tol = (2e-4 * (1 + abs(np.log(st["step"]))) * st["step"], 1e-5 * (i + 2), 2e-5 * (1 + abs(st["lavg"])), 1e-6 * (1 + abs(st["mu"])))
            if any(off(g, e, t_) for g, e, t_ in zip(got, exp, tol)):
                res.violation("da-recurrence", f"da_step #{i + 1}: (step, error_sum, log_avg, mu) = {got}, reference {exp}; "
                              f"target={target} gamma={gamma} kappa={kappa} t0={t0} a={a}", {"step0": step0})
                ok = False
                break
        if ok:
            da_finalize(ks)
            if off(float(ks.step_size), np.exp(st["lavg"]), 2e-5 * np.exp(st["lavg"]) * (1 + abs(st["lavg"]))):
                res.violation("da-finalize", f"da_finalize: step {float(ks.step_size)} != exp(log_avg) {np.exp(st['lavg'])}", {})
    # acceptance sequences whose errors cancel exactly (error_sum == 0 at the end of the epoch): the averaged
    # step size must still be installed by da_finalize
    for target, pattern in ((0.25, [1.0, 0.0, 0.0, 0.0]), (0.5, [1.0, 0.0]), (0.5, [0.0, 1.0, 1.0, 0.0]), (0.75, [1.0, 1.0, 1.0, 0.0])):
        ks = S()
        step0 = float(np.float32(np.exp(rng.uniform(-1, 1))))
        ks.step_size = jnp.asarray(step0, jnp.float32)
        da_init(ks)
        st = ref_init(step0)
        for i, a in enumerate(pattern):
            da_step(ks, jnp.asarray(a, jnp.float32), i, target, 0.05, 0.75, 10)
            st = ref_step(st, a, i, target, 0.05, 0.75, 10)
        da_finalize(ks)
        res.mon("direct_recurrence")
        if off(float(ks.step_size), np.exp(st["lavg"]), 3e-5 * np.exp(st["lavg"]) * (1 + abs(st["lavg"]))):
            res.violation("da-finalize", f"acceptances {pattern} with target {target} (errors cancel: error_sum={float(ks.error_sum)}): "
                          f"da_finalize left step {float(ks.step_size)}, averaged step is {np.exp(st['lavg'])}", {"pattern": pattern})
    # monotonicity: vectorised over random states
    n = case["n_mono"]
    ks1, ks2 = S(), S()
    err = rng.normal(0, 3, n).astype(np.float32)
    mu = rng.normal(0, 2, n).astype(np.float32)
    lavg = rng.normal(0, 2, n).astype(np.float32)
    for k in (ks1, ks2):
        k.error_sum = jnp.asarray(err)
        k.mu = jnp.asarray(mu)
        k.log_avg_step_size = jnp.asarray(lavg)
        k.step_size = jnp.exp(jnp.asarray(lavg))
    a1 = rng.uniform(0, 1, n).astype(np.float32)
    a2 = np.minimum(1.0, a1 + rng.uniform(0, 1, n).astype(np.float32) * (1 - a1) + 1e-3).astype(np.float32)
    tie = int(rng.integers(0, 200))
    # incl. extreme constants for which exp() over/underflows: monotone in the extended sense (0 <= x <= inf)
    tg, gm, kp, t0 = float(rng.uniform(0.2, 0.9)), float(rng.choice([0.001, 0.05, 0.5])), 0.75, int(rng.choice([1, 5, 10]))
    da_step(ks1, jnp.asarray(a1), tie, tg, gm, kp, t0)
    da_step(ks2, jnp.asarray(a2), tie, tg, gm, kp, t0)
    s1, s2 = np.asarray(ks1.step_size), np.asarray(ks2.step_size)
    res.mon("monotone_in_acceptance", n)
    bad = np.where((a2 > a1) & (s2 < s1))[0]
    if len(bad):
        i = bad[0]
        res.violation("not-monotone", f"higher acceptance {a2[i]} > {a1[i]} gives a smaller next step {s2[i]} < {s1[i]}", {})
    res.evals = case["n"]
    res.nontriv(("direct", case["idx"]))
    res.sample = {"kind": "direct", "sequences": case["n"], "monotonicity_pairs": n}


def log_prob(s):
    import jax.numpy as jnp

    return -0.5 * (jnp.sum(s["a"] ** 2) / 4.0 + jnp.sum((s["b"] - 1.0) ** 2) + jnp.sum(s["c"] ** 2) * 3.0)


def log_prob_rough(region):
    """The same target, but undefined (NaN) resp. impossible (-inf) for a < -0.2: proposals into that region are
    rejected with reported acceptance 0, which is what the dual averaging has to be fed."""
    import jax.numpy as jnp

    def f(s):
        base = log_prob(s)
        if region == "nan":
            return base + 0.0 * jnp.log(s["a"] + 0.2)
        return jnp.where(s["a"] < -0.2, -jnp.inf, base)
    return f


def make_kernel(kind, cfg):
    import jax.numpy as jnp
    import liesel.goose as gs

    da = dict(da_target_accept=cfg["target"], da_gamma=cfg["gamma"], da_kappa=cfg["kappa"], da_t0=cfg["t0"])
    if cfg.get("late_constants"):
        # the kernel is constructed with the default constants; the user sets the public attributes afterwards
        k = make_kernel(kind, dict(cfg, late_constants=False, target=0.8 if kind in ("hmc", "nuts") else 0.234, gamma=0.05,
                                   kappa=0.75, t0=10))
        for name, val in da.items():
            setattr(k, name, val)
        return k
    if kind == "rw":
        return gs.RWKernel(["a"], initial_step_size=cfg["step"], **da)
    if kind == "iwls":
        return gs.IWLSKernel(["b"], initial_step_size=cfg["step"], **da)
    if kind in ("mh_on", "mh_off"):
        def prop(key, state, step):
            import jax
            x = state["a"]
            return gs.MHProposal({"a": x + step * jax.random.normal(key, jnp.shape(x))}, 0.0)
        return gs.MHKernel(["a"], prop, initial_step_size=cfg["step"], da_tune_step_size=(kind == "mh_on"), **da)
    if kind == "hmc":
        return gs.HMCKernel(["c"], initial_step_size=cfg["step"], num_integration_steps=3, mm_diag=cfg["diag"], **da)
    if kind == "nuts":
        return gs.NUTSKernel(["c"], initial_step_size=cfg["step"] if cfg["explicit_step"] else None, max_treedepth=3,
                             mm_diag=cfg["diag"], **da)
    raise ValueError(kind)


def case_engine(case, res):
    import jax.numpy as jnp
    import liesel.goose as gs

    cfg = case["cfg"]
    kind = case["kernel"]
    spec = case["spec"]
    b = gs.EngineBuilder(seed=case["engine_seed"], num_chains=case["chains"])
    b.show_progress = False
    b.store_kernel_states = True
    region = case.get("region", "none")
    b.set_model(gs.DictInterface(log_prob if region == "none" else log_prob_rough(region)))
    b.set_initial_values({"a": jnp.asarray(0.3, jnp.float32), "b": jnp.asarray([0.1, 0.5], jnp.float32),
                          "c": jnp.asarray([0.2, -0.1, 0.4], jnp.float32)})
    ker = make_kernel(kind, cfg)
    b.add_kernel(ker)
    if kind in ("hmc", "nuts"):
        b.positions_included = []
    b.set_epochs(mk_epochs(spec))
    eng = b.build()
    eng.sample_all_epochs()
    r = eng.get_results()
    ks = r.kernel_states.unwrap().combine_all().unwrap()[0]
    ti = r.transition_infos.combine_all().unwrap()[ker.identifier]
    acc = np.asarray(ti.acceptance_prob, np.float64)      # [C, T-1]
    if region != "none":
        codes = np.asarray(ti.error_code)
        res.ev(f"proposals_into_{region}_region", int(np.sum(codes != 0) if region == "nan" else np.sum(acc == 0.0)))
        if np.any((codes != 0) & (acc != 0.0)):
            res.violation("engine-recurrence", f"a transition with error code {np.unique(codes).tolist()} reports acceptance "
                          f"probability {acc[codes != 0][:3].tolist()} (expected 0)", {"kernel": kind, "cfg": cfg, "schedule": spec})
    step = np.asarray(ks.step_size, np.float64)            # [C, T]
    err = np.asarray(ks.error_sum, np.float64)
    lavg = np.asarray(ks.log_avg_step_size, np.float64)
    mu = np.asarray(ks.mu, np.float64)
    imm = np.asarray(ks.inverse_mass_matrix, np.float64) if hasattr(ks, "inverse_mass_matrix") else None
    C = case["chains"]
    w = {"kernel": kind, "cfg": cfg, "schedule": spec, "target_region": region}
    tuned = kind != "mh_off"
    # epoch boundaries in global time: epoch e covers transitions t0..t0+d-1 -> snapshots t0..t0+d-1 (snapshot t = after transition t)
    t0 = 1
    prev_last = None  # (step, lavg, imm) at the last snapshot of the previous epoch
    for ei, (ty, d, _k) in enumerate(spec):
        adaptive = ty in (1, 2) and tuned
        for c in range(C):
            if adaptive:
                # epoch start state from the constant mu
                mu_e = mu[c, t0]
                if not np.allclose(mu[c, t0:t0 + d], mu_e, rtol=0, atol=1e-6):
                    res.violation("mu-not-constant", f"mu changes within adaptation epoch {ei + 1}: {mu[c, t0:t0 + d].tolist()}", w)
                step_start = np.exp(mu_e) / 10.0
                # restart from the current step size
                res.mon("restart_from_current_step")
                cur = step[c, t0 - 1]
                if prev_last is not None:
                    pstep, plavg, pimm, pty = prev_last[c]
                    cur = np.exp(plavg) if (pty in (1, 2) and tuned) else pstep
                    alt = cur
                    if pimm is not None and pty == 2:
                        # HMC/NUTS rescale the step when the mass matrix is re-tuned; the step size
                        # between end_epoch and start_epoch is not observable, so both the plain and
                        # the rescaled value count as "the current step size"
                        new_imm = imm[c, t0]
                        tr = (lambda m: np.trace(m)) if new_imm.ndim == 2 else (lambda m: np.sum(m))
                        alt = cur * np.sqrt(tr(pimm) / tr(new_imm))
                    if abs(step_start - alt) <= 2e-4 * alt:
                        cur = alt
                if off(step_start, cur, 2e-4 * cur):
                    res.violation("restart-value", f"epoch {ei + 1} (chain {c}): dual averaging restarted from step "
                                  f"{step_start} (mu={mu_e}) but the kernel's current step size is {cur}", w)
                st = {"step": step_start, "err": 0.0, "lavg": float(np.log(step_start)), "mu": float(mu_e)}
                for i in range(d):
                    a = acc[c, t0 - 1 + i]
                    st = ref_step(st, a, i, cfg["target"], cfg["gamma"], cfg["kappa"], cfg["t0"])
                    t = t0 + i
                    res.mon("engine_recurrence")
                    got = (step[c, t], err[c, t], lavg[c, t])
                    exp = (st["step"], st["err"], st["lavg"])
                    tol = (3e-4 * st["step"] * (1 + abs(np.log(st["step"]))), 2e-5 * (i + 2), 5e-5 * (1 + abs(st["lavg"])))
                    if any(not np.isfinite(g) or off(g, e, t_) for g, e, t_ in zip(got, exp, tol)):
                        res.violation("engine-recurrence", f"epoch {ei + 1} transition {i} chain {c}: stored (step, error_sum, "
                                      f"log_avg) = {got}, recurrence gives {exp} (acceptance {a})", w)
                        break
                    # keep the reference tied to the stored state so that one deviation is reported once
                    st = {"step": float(got[0]), "err": float(got[1]), "lavg": float(got[2]), "mu": st["mu"]}
            else:
                res.mon("frozen_outside_adaptation")
                for name, arr in (("step_size", step), ("error_sum", err), ("log_avg_step_size", lavg), ("mu", mu)):
                    seg = arr[c, t0:t0 + d]
                    if not np.all(seg == seg[0]):
                        res.violation("not-frozen", f"{name} changes between transitions of "
                                      f"{'adaptation epoch of a non-tuning kernel' if ty in (1, 2) else 'burn-in/posterior epoch'} "
                                      f"{ei + 1}: {seg.tolist()}", w)
                        break
                if imm is not None:
                    seg = imm[c, t0:t0 + d]
                    if not np.all(seg == seg[0]):
                        res.violation("not-frozen", f"inverse mass matrix changes within epoch {ei + 1}", w)
                # averaged step size installed at the end of the preceding adaptation epoch
                if prev_last is not None and prev_last[c][3] in (1, 2) and tuned:
                    pstep, plavg, pimm, pty = prev_last[c]
                    exp_step = np.exp(plavg)
                    alt = exp_step
                    if pimm is not None and pty == 2:
                        new_imm = imm[c, t0]
                        tr = (lambda m: np.trace(m)) if new_imm.ndim == 2 else (lambda m: np.sum(m))
                        alt = exp_step * np.sqrt(tr(pimm) / tr(new_imm))
                    if abs(step[c, t0] - alt) <= 3e-5 * alt * (1 + abs(plavg)):
                        exp_step = alt
                    res.mon("averaged_step_installed")
                    if off(step[c, t0], exp_step, 3e-5 * exp_step * (1 + abs(plavg))):
                        res.violation("average-not-installed", f"epoch {ei + 1} runs with step {step[c, t0]}, the averaged "
                                      f"step of the preceding adaptation epoch is {exp_step}", w)
        prev_last = [(step[c, t0 + d - 1], lavg[c, t0 + d - 1], None if imm is None else imm[c, t0 + d - 1], ty) for c in range(C)]
        t0 += d
    n_ad = sum(1 for ty, _, _ in spec if ty in (1, 2))
    n_fr = sum(1 for ty, _, _ in spec if ty in (3, 4))
    if n_ad >= 2 and n_fr >= 1 and tuned:
        res.nontriv(("engine", kind, str(cfg), str(spec)))
    res.sample = {"kind": "engine", "kernel": kind, "cfg": cfg, "schedule": spec}
    res.ev("transitions_replayed", (t0 - 1) * C)


def gen_spec(rng):
    n_ad = int(rng.integers(1, 4))
    spec = []
    for _ in range(n_ad):
        spec.append([int(rng.choice([1, 2])), int(rng.integers(3, 12)), 1])
        if rng.random() < 0.3:
            spec.append([3, int(rng.integers(1, 5)), 1])
    if rng.random() < 0.8:
        spec.append([3, int(rng.integers(2, 6)), 1])
    for _ in range(int(rng.integers(0, 3))):
        spec.append([4, int(rng.integers(2, 6)), 1])
    return spec


def gen_cases(tier, seed):
    q = tier == "quick"
    cases = [{"kind": "direct", "idx": i, "seed": seed, "n": 40 if q else 400, "n_mono": 20000, "cost": 3} for i in range(8 if q else 128)]
    kinds = ["rw", "iwls", "mh_on", "mh_off", "hmc", "nuts"]
    for i in range(42 if q else 1800):
        rng = rng_for(seed, "c11-eng", i)
        kind = kinds[i % len(kinds)]
        cfg = {"step": float(np.round(np.exp(rng.uniform(np.log(0.05), np.log(2.0))), 3)), "target": float(np.round(rng.uniform(0.2, 0.9), 2)),
               "gamma": float(rng.choice([0.05, 0.2, 1.0])), "kappa": float(rng.choice([0.6, 0.75, 0.9])), "t0": int(rng.choice([1, 10, 25])),
               "diag": bool(rng.random() < 0.6), "explicit_step": bool(rng.random() < 0.7),
               "late_constants": bool((i // len(kinds)) % 2)}
        cases.append({"kind": "engine", "idx": i, "seed": seed, "kernel": kind, "cfg": cfg, "spec": gen_spec(rng),
                      "chains": int(rng.integers(1, 3)), "engine_seed": int(rng.integers(2 ** 30)),
                      "region": ["none", "nan", "inf"][(i // len(kinds)) % 3] if kind in ("rw", "mh_on", "mh_off") else "none",
                      "cost": 12 if kind in ("nuts", "hmc") else 5})
    return cases


def run_case(case):
    res = CaseResult(case)
    res.evals = 1
    try:
        (case_direct if case["kind"] == "direct" else case_engine)(case, res)
    except Exception as exc:  # noqa: BLE001
        mech, text = exc_mech(exc)
        if mech is None:
            raise
        res.violation(mech, f"raised\n{text}", case)
    return res
