"""C06 — proposal corrections of RW, IWLS and MH kernels satisfy detailed balance.

Every observed transition's reported acceptance probability is compared with
min(1, pi(x')q(x|x') / (pi(x)q(x'|x))) computed in float64 from closed forms (target density, analytic
gradient and Hessian, the kernel's stated proposal density).  Proposals are observed through the
enriched mh_step wrapper (all proposals) and through accepted transitions (public data only)."""

from __future__ import annotations

import numpy as np
from scipy import special

from vlib import stats as vs
from vlib.common import CaseResult, exc_mech, off, rng_for

ID = "C06"
RULE = (
    "kernels RW, IWLS (autodiff Hessian and user chol_info_fn), MH (multiplicative log-normal walk and "
    "independence proposal with their declared corrections) x targets with analytic gradient/Hessian "
    "(Gaussian N(m,Sigma), logistic and Poisson regression with Gaussian prior; dict and Liesel models) x "
    "blocks that are scalars, vectors and several keys in non-sorted listing order x current points from the "
    "target and from its tails x step sizes over three decades; kernels driven through the protocol under "
    "jit+vmap (hundreds of keys per state) and through the engine. Second monitor: 20 000 proposals at a fixed "
    "state against the stated proposal law (two-stage z-tests). Also: user proposal with state-dependent bounded support (irreversible moves declare a -inf correction); targets with bounded support entered from zero-density points; a 24-dimensional IWLS block at step size 0.02. Round 5: kernel-state step size different from the constructed one. non-trivial = proposal with |log alpha| > 0.05; "
    "distinct by (configuration, key)"
)
REQUIRED = ["reported_alpha_equals_mh_ratio", "accepted_state_is_proposal", "proposal_law_matches_stated_q",
            "enriched_infos_observed", "engine_run_alpha", "two_stage_statistics"]
ANCHORS = ["goose/iwls.py:IWLSKernel._standard_transition", "goose/rw.py:RWKernel._standard_transition",
           "goose/mh_kernel.py:MHKernel._standard_transition", "goose/iwls_utils.py:mvn_log_prob",
           "goose/iwls_utils.py:mvn_sample", "goose/iwls_utils.py:solve", "goose/mh.py:mh_step"]
ASSUMPTIONS = ["ill-conditioned cases (cond F > 1e4) and |log alpha| > 50 are excluded from the numeric comparison (counted as skipped)",
               "float32 tolerance on log alpha: 5e-3 + 3e-6*(|lp|+|lp'|+|log q_fwd|+|log q_bwd|)"]
WORKERS = 16
TIMEOUT = {"quick": 1500, "thorough": 10800}


# ---------------------------------------------------------------- targets
class Target:
    """Target over a block of keys; theta = concat(ravel(state[k]) for k in sorted(keys))."""

    def __init__(self, rng, kind, shapes, box=False):
        self.box = box
        self.kind = kind
        self.shapes = shapes
        self.keys = sorted(shapes)
        self.d = int(sum(int(np.prod(s)) if s else 1 for s in shapes.values()))
        d = self.d
        self.m = np.round(rng.normal(size=d), 2)
        A = rng.normal(size=(d, d))
        P = A @ A.T / d + np.diag(np.exp(rng.uniform(np.log(0.3), np.log(3.0), size=d)))
        self.P = np.round(P, 3)
        self.P = (self.P + self.P.T) / 2
        if kind in ("logit", "pois"):
            n = int(rng.integers(6, 20))
            self.X = np.round(rng.normal(size=(n, d)) * 0.7, 2)
            if kind == "logit":
                self.y = rng.integers(0, 2, size=n).astype(np.float64)
            else:
                self.y = rng.poisson(2.0, size=n).astype(np.float64)
        # bounded support (box=True): zero density wherever a coordinate is below lo
        self.lo = np.full(d, -1e30)
        self.lo[0] = np.round(self.m[0] - 0.4, 2)      # (one bounded coordinate: points outside are left often enough)

    # float64 closed forms
    def logp(self, th):
        th = np.asarray(th, np.float64)
        if self.box and np.any(th < self.lo):
            return -np.inf
        pr = -0.5 * (th - self.m) @ self.P @ (th - self.m)
        if self.kind == "gauss":
            return pr
        eta = self.X @ th
        if self.kind == "logit":
            return pr + np.sum(self.y * eta - np.logaddexp(0, eta))
        return pr + np.sum(self.y * eta - np.exp(eta))

    def grad(self, th):
        g = -self.P @ (th - self.m)
        if self.kind == "gauss":
            return g
        eta = self.X @ th
        mu = special.expit(eta) if self.kind == "logit" else np.exp(eta)
        return g + self.X.T @ (self.y - mu)

    def info(self, th):
        if self.kind == "gauss":
            return self.P
        eta = self.X @ th
        w = special.expit(eta) * (1 - special.expit(eta)) if self.kind == "logit" else np.exp(eta)
        return self.P + self.X.T @ (w[:, None] * self.X)

    # jax side
    def flat_jax(self, state):
        import jax.numpy as jnp

        return jnp.concatenate([jnp.ravel(state[k]) for k in self.keys])

    def logp_jax(self, state):
        import jax.numpy as jnp

        val = self._logp_jax(state)
        if self.box:
            return jnp.where(jnp.all(self.flat_jax(state) >= jnp.asarray(self.lo, jnp.float32)), val, -jnp.inf)
        return val

    def _logp_jax(self, state):
        import jax
        import jax.numpy as jnp

        th = self.flat_jax(state)
        m, P = jnp.asarray(self.m, jnp.float32), jnp.asarray(self.P, jnp.float32)
        pr = -0.5 * (th - m) @ P @ (th - m)
        if self.kind == "gauss":
            return pr
        X, y = jnp.asarray(self.X, jnp.float32), jnp.asarray(self.y, jnp.float32)
        eta = X @ th
        if self.kind == "logit":
            return pr + jnp.sum(y * eta - jax.nn.softplus(eta))
        return pr + jnp.sum(y * eta - jnp.exp(eta))

    def unflatten(self, th):
        out, i = {}, 0
        for k in self.keys:
            n = int(np.prod(self.shapes[k])) if self.shapes[k] else 1
            out[k] = np.asarray(th[i:i + n], np.float32).reshape(self.shapes[k])
            i += n
        return out

    def flat_np(self, pos):
        return np.concatenate([np.ravel(np.asarray(pos[k], np.float64)) for k in self.keys])

    def point(self, rng, where):
        S = np.linalg.inv(self.info(self.m))
        L = np.linalg.cholesky(S)
        z = rng.normal(size=self.d)
        scale = {"target": 1.0, "tail": 3.5}[where]
        return self.m + scale * L @ z


def mvn_logpdf(x, mean, prec):
    d = len(x)
    r = x - mean
    sign, ld = np.linalg.slogdet(prec)
    return -0.5 * r @ prec @ r + 0.5 * ld - 0.5 * d * np.log(2 * np.pi)


SHAPE_SETS = [{"a": ()}, {"b": (3,)}, {"zeta": (2,), "alpha": ()}, {"b": (2,), "a": (), "c": (2,)}, {"m": (2, 2)},
              {"v": (24,)}]     # the last one: a long block (used with a small step size: large proposal precision)
LONG = 5


def make_liesel(target, listing):
    """Liesel graph model with the same density (single vector block only)."""
    import jax
    import jax.numpy as jnp
    import liesel.goose as gs
    import liesel.model as lsl

    vs_ = {k: lsl.Var(jnp.zeros(target.shapes[k], jnp.float32), name=k) for k in listing}

    def f(*vals):
        st = dict(zip(listing, vals))
        return target.logp_jax(st)

    lp = lsl.Calc(f, *[vs_[k] for k in listing], _name="lp")
    gb = lsl.GraphBuilder()
    gb.add(lp)
    gb.log_prob_node = lp
    model = gb.build_model()
    _ = jax
    return gs.LieselInterface(model), model.state


def case_alpha(case, res):
    import jax
    import jax.numpy as jnp
    import liesel.goose as gs
    from liesel.goose.epoch import EpochConfig, EpochType

    from vlib import mhobs

    enriched = mhobs.install()
    rng = rng_for(case["seed"], "c06", case["idx"])
    kind = case["kernel"]
    shapes = SHAPE_SETS[case["shapes"]]
    tkind = case["target"]
    listing = list(shapes)
    rng.shuffle(listing)
    if sorted(listing) == listing and len(listing) > 1:
        listing = listing[::-1]
    use_liesel = bool(case.get("liesel"))
    box = bool(case.get("box")) and kind in ("rw", "mh") and not use_liesel
    T = Target(rng, tkind, shapes, box=box)
    if use_liesel:
        iface, base_state = make_liesel(T, listing)
    else:
        iface = gs.DictInterface(T.logp_jax)
        base_state = {k: jnp.zeros(shapes[k], jnp.float32) for k in shapes}
    step = float(case["step"])
    # the step size in force (kernel state) differs from the one the kernel was constructed with, as after adaptation
    step_init = step * 1.7 if case["idx"] % 2 else step
    G = None
    mh_mode = None
    if kind == "rw":
        ker = gs.RWKernel(listing, initial_step_size=step_init)
    elif kind == "iwls":
        ker = gs.IWLSKernel(listing, initial_step_size=step_init)
    elif kind == "iwls_user":
        # user-supplied information: a fixed SPD matrix plus a state-dependent diagonal
        A = rng.normal(size=(T.d, T.d))
        G0 = np.round(A @ A.T / T.d + np.eye(T.d), 3)

        def Gfun(th):
            return G0 + np.diag(0.5 * np.tanh(th) ** 2)

        def chol_info_fn(state):
            th = T.flat_jax(iface.extract_position(T.keys, state) if use_liesel else state)
            return jnp.linalg.cholesky(jnp.asarray(G0, jnp.float32) + jnp.diag(0.5 * jnp.tanh(th) ** 2))
        G = Gfun
        ker = gs.IWLSKernel(listing, chol_info_fn=chol_info_fn, initial_step_size=step_init)
    else:
        mh_mode = case["mh_mode"]
        key0 = T.keys[0]

        if mh_mode == "asym_drift":
            # drifted Gaussian proposal: x' ~ N(x + step*tanh(x), step^2)  (asymmetric)
            def prop(key, state, s):
                pos = iface.extract_position(listing, state)
                new, corr = {}, 0.0
                ks_ = jax.random.split(key, len(listing))
                for kk, k in zip(ks_, listing):
                    x = pos[k]
                    mu_f = x + s * jnp.tanh(x)
                    xp = mu_f + s * jax.random.normal(kk, jnp.shape(x))
                    mu_b = xp + s * jnp.tanh(xp)
                    corr = corr + jnp.sum(-0.5 * ((x - mu_b) / s) ** 2 + 0.5 * ((xp - mu_f) / s) ** 2)
                    new[k] = xp
                return gs.MHProposal(new, corr)
        elif mh_mode == "window":
            # uniform window whose half-width depends on the state: x' ~ U(x - h(x), x + h(x)), h(x) = s*(0.2+|x|).
            # A move is irreversible (q(x|x') = 0, declared correction -inf) when |x - x'| > h(x').
            def prop(key, state, s):
                pos = iface.extract_position(listing, state)
                new, corr = {}, 0.0
                ks_ = jax.random.split(key, len(listing))
                for kk, k in zip(ks_, listing):
                    x = pos[k]
                    h = s * (0.2 + jnp.abs(x))
                    xp = x + h * jax.random.uniform(kk, jnp.shape(x), minval=-1.0, maxval=1.0)
                    hb = s * (0.2 + jnp.abs(xp))
                    lq_b_ = jnp.where(jnp.abs(x - xp) <= hb, -jnp.log(2 * hb), -jnp.inf)
                    corr = corr + jnp.sum(lq_b_ + jnp.log(2 * h))
                    new[k] = xp
                return gs.MHProposal(new, corr)
        else:
            # independence proposal N(m_k, 1.5^2) per coordinate
            def prop(key, state, s):
                pos = iface.extract_position(listing, state)
                new, corr = {}, 0.0
                ks_ = jax.random.split(key, len(listing))
                for kk, k in zip(ks_, listing):
                    x = pos[k]
                    xp = 0.3 + 1.5 * jax.random.normal(kk, jnp.shape(x))
                    corr = corr + jnp.sum(-0.5 * ((x - 0.3) / 1.5) ** 2 + 0.5 * ((xp - 0.3) / 1.5) ** 2)
                    new[k] = xp
                return gs.MHProposal(new, corr)
        ker = gs.MHKernel(listing, prop, initial_step_size=step_init)
        _ = key0
    ker.set_model(iface)
    epoch = EpochConfig(EpochType.BURNIN, 10, 1, None).to_state(1, 1)
    w = {"kernel": kind, "target": tkind, "listing_order": listing, "step": step, "liesel": use_liesel, "mh_mode": mh_mode}
    n_states = case["n_states"]
    nk = case["n_keys"]
    n_nontriv = 0
    for si in range(n_states):
        th0 = T.point(rng, "tail" if si % 3 == 2 else "target")
        pos0 = T.unflatten(th0)
        state = iface.update_state({k: jnp.asarray(v) for k, v in pos0.items()}, base_state)
        th0 = T.flat_np(pos0)        # float32-rounded current point
        ks0 = ker.init_state(jax.random.PRNGKey(0), state)
        ks0.step_size = jnp.asarray(step, jnp.float32)
        keys = jax.random.split(jax.random.PRNGKey(int(rng.integers(2 ** 31 - 1))), nk)
        out = jax.jit(jax.vmap(lambda k: ker.transition(k, ks0, state, epoch)))(keys)
        info = out.info
        acc = np.asarray(info.acceptance_prob, np.float64)
        moved = np.asarray(info.position_moved)
        newpos = iface.extract_position(T.keys, out.model_state)
        new_th = np.stack([T.flat_np({k: np.asarray(newpos[k])[i] for k in T.keys}) for i in range(nk)])
        has_rich = hasattr(info, "proposal")
        if has_rich:
            res.mon("enriched_infos_observed", nk)
            prop_th = np.stack([T.flat_np({k: np.asarray(info.proposal[k])[i] for k in T.keys}) for i in range(nk)])
        else:
            prop_th = None
        lp0 = T.logp(th0)
        F0 = None
        if kind in ("iwls", "iwls_user"):
            F0 = T.info(th0) if G is None else G(th0)
            if np.linalg.cond(F0) > 1e4:
                res.skip("ill-conditioned information matrix")
                continue
            mu0 = th0 + (step ** 2 / 2) * np.linalg.solve(F0, T.grad(th0))
        for i in range(nk):
            accepted = bool(moved[i])
            if prop_th is not None:
                xp = prop_th[i]
            elif accepted:
                xp = new_th[i]
            else:
                continue
            # accepted transitions: the new state is the proposal; rejected: unchanged
            res.mon("accepted_state_is_proposal")
            exp_state = xp if accepted else th0
            if not np.allclose(new_th[i], exp_state, rtol=1e-6, atol=1e-6):
                res.violation("state-not-proposal", f"position_moved={accepted} but the new state {new_th[i].tolist()} is not "
                              f"{'the proposal' if accepted else 'the old state'} {exp_state.tolist()}", w)
                break
            lp1 = T.logp(xp)
            if kind == "rw":
                lq_f = lq_b = 0.0
            elif kind in ("iwls", "iwls_user"):
                F1 = T.info(xp) if G is None else G(xp)
                if np.linalg.cond(F1) > 1e4:
                    res.skip("ill-conditioned information matrix")
                    continue
                mu1 = xp + (step ** 2 / 2) * np.linalg.solve(F1, T.grad(xp))
                lq_f = mvn_logpdf(xp, mu0, F0 / step ** 2)
                lq_b = mvn_logpdf(th0, mu1, F1 / step ** 2)
            elif mh_mode == "asym_drift":
                mf = th0 + step * np.tanh(th0)
                mb = xp + step * np.tanh(xp)
                lq_f = np.sum(-0.5 * ((xp - mf) / step) ** 2)
                lq_b = np.sum(-0.5 * ((th0 - mb) / step) ** 2)
            elif mh_mode == "window":
                hf = step * (0.2 + np.abs(th0))
                hb = step * (0.2 + np.abs(xp))
                lq_f = float(np.sum(-np.log(2 * hf)))
                margin = np.abs(th0 - xp) - hb
                if np.any(np.abs(margin) < 1e-5 * (1 + hb)):
                    res.skip("window proposal on the edge of reversibility (float32)")
                    continue
                if np.any(margin > 0):
                    # q(x|x') = 0: the move cannot be reversed, alpha = 0 and the chain stays
                    res.mon("irreversible_proposal_rejected")
                    if accepted or acc[i] != 0.0:
                        res.violation("alpha-not-mh-ratio", f"mh(window): the proposal x'={np.round(xp, 4).tolist()} from "
                                      f"x={np.round(th0, 4).tolist()} cannot be reversed (|x-x'| > h(x')), declared log-correction "
                                      f"-inf, but reported acceptance probability {acc[i]:.6g}, moved={accepted}", w)
                        break
                    continue
                lq_b = float(np.sum(-np.log(2 * hb)))
            else:
                lq_f = np.sum(-0.5 * ((xp - 0.3) / 1.5) ** 2)
                lq_b = np.sum(-0.5 * ((th0 - 0.3) / 1.5) ** 2)
            if box and not np.isfinite(lp0):
                if not np.isfinite(lp1):
                    res.skip("zero density at both points")
                    continue
                # from a point of zero density to one of positive density: the ratio is +inf, alpha = 1
                res.mon("leaves_zero_density_point_with_probability_one")
                if acc[i] != 1.0 or not accepted:
                    res.violation("alpha-not-mh-ratio", f"{kind}: pi(x) = 0 at x={np.round(th0, 3).tolist()} and pi(x') > 0 at "
                                  f"x'={np.round(xp, 3).tolist()} (log pi(x')={lp1:.4f}): min(1, ratio) = 1, but the reported "
                                  f"acceptance probability is {acc[i]:.6g}, moved={accepted}", w)
                    break
                continue
            if box and np.any(np.abs(np.concatenate([th0, xp]) - np.tile(T.lo, 2)) < 1e-5):
                res.skip("point on the edge of the support (float32)")
                continue
            raw = (lp1 - lp0) + (lq_b - lq_f)
            if np.isnan(raw) or abs(lp1) > 1e30:
                # the float64 oracle itself overflows (Poisson rate exp(eta) at a far-out proposal): no verdict
                res.skip("oracle overflow at a far-out proposal")
                continue
            la = min(0.0, raw)
            if la < -50:
                res.skip("|log alpha| > 50")
                continue
            res.mon("reported_alpha_equals_mh_ratio")
            tol = 5e-3 + 3e-6 * (abs(lp0) + abs(lp1) + abs(lq_f) + abs(lq_b))
            got = np.log(max(acc[i], 1e-300)) if np.isfinite(acc[i]) else np.nan
            if off(got, la, tol):
                res.violation(
                    "alpha-not-mh-ratio",
                    f"{kind}: reported acceptance probability {acc[i]:.6g} (log {got:.5f}) but min(1, pi(x')q(x|x')/(pi(x)q(x'|x))) "
                    f"= {np.exp(la):.6g} (log {la:.5f}); log pi(x)={lp0:.4f} log pi(x')={lp1:.4f} log q(x'|x)={lq_f:.4f} "
                    f"log q(x|x')={lq_b:.4f}; x={np.round(th0, 4).tolist()} x'={np.round(xp, 4).tolist()} step={step}", w)
                break
            if abs(la) > 0.05:
                n_nontriv += 1
                if n_nontriv <= 40:
                    res.nontriv(("c06", case["idx"], si, i))
        if len(res.violations) >= 2:
            break
    if not enriched:
        res.ev("fallback_accepted_only")
    res.sample = dict(w, dimension=T.d, states=n_states, keys_per_state=nk)
    res.evals = n_states * nk


def case_law(case, res):
    """20 000 proposals at a fixed state vs the stated proposal law (whitened z-tests)."""
    import jax
    import jax.numpy as jnp
    import liesel.goose as gs
    from liesel.goose.epoch import EpochConfig, EpochType

    from vlib import mhobs

    mhobs.install()
    rng = rng_for(case["seed"], "c06-law", case["idx"])    # same model in both stages
    shapes = SHAPE_SETS[case["shapes"]]
    listing = list(shapes)[::-1]
    T = Target(rng, case["target"], shapes)
    iface = gs.DictInterface(T.logp_jax)
    step = float(case["step"])
    ker = gs.RWKernel(listing, initial_step_size=step) if case["kernel"] == "rw" else gs.IWLSKernel(listing, initial_step_size=step)
    ker.set_model(iface)
    th0 = T.point(rng, "target")
    pos0 = T.unflatten(th0)
    th0 = T.flat_np(pos0)
    state = {k: jnp.asarray(v) for k, v in pos0.items()}
    epoch = EpochConfig(EpochType.POSTERIOR, 10, 1, None).to_state(1, 1)
    ks0 = ker.init_state(jax.random.PRNGKey(0), state)
    N = case["n"]
    keys = jax.random.split(jax.random.PRNGKey(case["draw_seed"]), N)
    out = jax.jit(jax.vmap(lambda k: ker.transition(k, ks0, state, epoch)))(keys)
    info = out.info
    if not hasattr(info, "proposal"):
        res.skip("enriched mh_step not installed: proposal law not observable")
        res.extra = {"stats": {}, "flags": {}}
        return
    P = np.stack([np.concatenate([np.ravel(np.asarray(info.proposal[k])[i]) for k in T.keys]) for i in range(N)]).astype(np.float64)
    if case["kernel"] == "rw":
        mu = th0
        Lw = np.eye(T.d) / step
    else:
        F = T.info(th0)
        mu = th0 + (step ** 2 / 2) * np.linalg.solve(F, T.grad(th0))
        Lw = np.linalg.cholesky(F).T / step     # u = Lw (x'-mu) ~ N(0, I)
    U = (P - mu) @ Lw.T
    st = {}
    for j in range(T.d):
        st[f"mean|{j}"] = float(U[:, j].mean() * np.sqrt(N))
        st[f"var|{j}"] = float((np.mean(U[:, j] ** 2) - 1) * np.sqrt(N / 2))
    for j in range(min(T.d, 3)):
        for k in range(j + 1, min(T.d, 3)):
            st[f"cov|{j},{k}"] = float(np.mean(U[:, j] * U[:, k]) * np.sqrt(N))
    res.mon("proposal_law_matches_stated_q", len(st))
    desc = {"kernel": case["kernel"], "target": case["target"], "step": step, "d": T.d, "N": N}
    res.extra = {"stats": st, "flags": vs.flags(st), "mech": "proposal-law", "desc": desc}
    res.nontriv(("law", case["idx"]))
    res.sample = desc
    res.evals = N


def case_engine(case, res):
    """RW + IWLS over two blocks through the engine: stored infos (enriched) are judged the same way."""
    import jax.numpy as jnp
    import liesel.goose as gs

    from vlib import mhobs
    from vlib.probes import mk_epochs

    mhobs.install()
    rng = rng_for(case["seed"], "c06-eng", case["idx"])
    Tb = Target(rng, "logit", {"b": (3,)})
    Ta = Target(rng, "gauss", {"a": ()})

    def lp(s):
        return Tb.logp_jax(s) + Ta.logp_jax(s)

    step_b, step_a = float(case["step"]), 0.8
    b = gs.EngineBuilder(seed=int(rng.integers(2 ** 30)), num_chains=2)
    b.show_progress = False
    b.set_model(gs.DictInterface(lp))
    b.set_initial_values({"a": jnp.asarray(0.2, jnp.float32), "b": jnp.asarray([0.1, -0.3, 0.2], jnp.float32)})
    kb = gs.IWLSKernel(["b"], initial_step_size=step_b)
    ka = gs.RWKernel(["a"], initial_step_size=step_a)
    b.add_kernel(kb)
    b.add_kernel(ka)
    b.set_epochs(mk_epochs([[3, 20, 1], [4, 20, 1]]))
    eng = b.build()
    eng.sample_all_epochs()
    r = eng.get_results()
    ti = r.transition_infos.combine_all().unwrap()
    pos = r.positions.combine_all().unwrap()
    ib = ti[kb.identifier]
    if not hasattr(ib, "proposal"):
        res.skip("enriched mh_step not installed: engine proposals not observable")
        return
    w = {"kind": "engine", "step_b": step_b}
    B = np.asarray(pos["b"], np.float64)          # [C, T, 3]
    prop = np.asarray(ib.proposal["b"], np.float64)  # [C, T-1, 3]
    acc = np.asarray(ib.acceptance_prob, np.float64)
    for c in range(2):
        for t in range(prop.shape[1]):
            x0, xp = B[c, t], prop[c, t]
            F0, F1 = Tb.info(x0), Tb.info(xp)
            mu0 = x0 + (step_b ** 2 / 2) * np.linalg.solve(F0, Tb.grad(x0))
            mu1 = xp + (step_b ** 2 / 2) * np.linalg.solve(F1, Tb.grad(xp))
            lq_f = mvn_logpdf(xp, mu0, F0 / step_b ** 2)
            lq_b = mvn_logpdf(x0, mu1, F1 / step_b ** 2)
            raw_b = Tb.logp(xp) - Tb.logp(x0) + lq_b - lq_f
            if np.isnan(raw_b):
                continue        # the float64 oracle overflowed
            la = min(0.0, raw_b)
            if la < -50:
                continue
            res.mon("engine_run_alpha")
            if off(np.log(max(acc[c, t], 1e-300)) if np.isfinite(acc[c, t]) else np.nan, la,
                   5e-3 + 3e-6 * (abs(lq_f) + abs(lq_b) + abs(Tb.logp(x0)))):
                res.violation("alpha-not-mh-ratio", f"engine run, chain {c} transition {t}: IWLS reported {acc[c, t]:.6g}, "
                              f"MH ratio gives {np.exp(la):.6g}", w)
                return
            if abs(la) > 0.05:
                res.nontriv(("eng", case["idx"], c, t))
    res.sample = w


def gen_cases(tier, seed):
    q = tier == "quick"
    cases = []
    kernels = ["rw", "iwls", "iwls_user", "mh"]
    i = 0
    for rep in range(1 if q else 12):
        for kern in kernels:
            for tkind in ("gauss", "logit", "pois"):
                for sh in range(len(SHAPE_SETS)):
                    if q and (sh + len(tkind) + len(kern)) % 2 == 1:
                        continue
                    rng = rng_for(seed, "c06-gen", i)
                    step = float(np.round(10 ** rng.uniform(-1.3, 0.6), 3))
                    if sh == LONG:
                        if kern not in ("iwls", "rw") or tkind != "gauss":
                            continue
                        step = 0.02
                    cases.append({"kind": "alpha", "idx": i, "seed": seed, "kernel": kern, "target": tkind, "shapes": sh,
                                  "step": step, "mh_mode": ["asym_drift", "independence", "window"][i % 3], "liesel": bool(i % 5 == 0), "box": bool(i % 4 == 1),
                                  "n_states": 4 if q else 8, "n_keys": 48 if q else 128, "cost": 6 if "iwls" in kern else 3})
                    i += 1
    for j in range(6 if q else 60):
        cases.append({"kind": "law", "idx": 100000 + j, "seed": seed, "kernel": ["rw", "iwls"][j % 2], "target": ["gauss", "logit", "pois"][j % 3],
                      "shapes": [1, 2, 3][j % 3], "step": [0.3, 1.0, 2.0][j % 3], "n": 20000,
                      "draw_seed": (seed * 104729 + j * 17 + 3) % (2 ** 31 - 1), "cost": 5})
    for j in range(3 if q else 30):
        cases.append({"kind": "engine", "idx": 200000 + j, "seed": seed, "step": [0.5, 1.0, 1.8][j % 3], "cost": 8})
    return cases


def run_case(case):
    res = CaseResult(case)
    res.evals = 1
    try:
        {"alpha": case_alpha, "law": case_law, "engine": case_engine}[case["kind"]](case, res)
    except Exception as exc:  # noqa: BLE001
        mech, text = exc_mech(exc)
        if mech is None:
            raise
        res.violation(mech, f"raised\n{text}", case)
    return res


def stage2(case):
    c = dict(case)
    c["stage2_of"] = case["idx"]
    c["n"] = case["n"] * 4
    c["draw_seed"] = (case["draw_seed"] * 48271 + 777) % (2 ** 31 - 1)
    return c


def finalize(ctx):
    vs.two_stage_finalize(ctx, stage2, what="proposal-law statistic")
