"""C19 — error and sample bookkeeping: error log, Summary, ArviZ conversion, pickle round-trip.

Ground truth: the prescribed (chain, time) error-code tables of the probe kernels."""

from __future__ import annotations

import os
import tempfile

import numpy as np

from vlib.common import CaseResult, liesel_call, rng_for
from vlib.enginelab import drive, first_posterior_time, gen_probe_case, kid, stored_times
from vlib.probes import ProbeKernel, ProbeKernelB, total_time

ID = "C19"
RULE = (
    "engine runs with probe kernels returning prescribed error codes from (chain,time) tables: empty, "
    "warm-up only, posterior only, single cell, sparse, dense, 3 codes, 1-3 kernels (some error free), "
    "1-3 chains, random schedules with thinning; per run: get_error_log(False/True), Summary.error_summary, "
    "error_df(per_chain True/False), sample_info, pickle save/load, ArviZ conversion (with/without warm-up). "
    "Also: negative error codes (-1 in the error books); two kernel classes with distinct error books; results read after every driven epoch before further epochs are appended. Round 5: half of the runs with minimised transition infos. non-trivial = table with errors in both phases and >= 2 codes; distinct by (schedule, tables)"
)
REQUIRED = ["error_log_matches_table", "posterior_error_log_matches_table", "summary_counts",
            "summary_messages", "error_df_per_chain", "error_df_aggregated", "sample_info",
            "pickle_roundtrip", "arviz_posterior", "arviz_warmup"]
ANCHORS = ["goose/engine.py:SamplingResults.get_error_log", "goose/summary_m.py:_make_error_summary",
           "goose/summary_m.py:Summary._error_df", "experimental/arviz.py:to_arviz_inference_data",
           "goose/engine.py:SamplingResults.pkl_save"]
ASSUMPTIONS = [
    "warmup_size_per_chain is judged against stored samples only when warm-up thinning is 1 (with "
    "thinning it may count transitions or samples; both readings accepted)",
    "the `relative` column of error_df is not part of the property",
    "Summary needs a posterior epoch; schedules without one are judged through the error log only",
]
WORKERS = 16
TIMEOUT = {"quick": 1500, "thorough": 10800}


def tables(case):
    T = total_time(case["spec"])
    out = []
    for ki in range(len(case["kernels"])):
        tab = np.zeros((case["chains"], T), np.int32)  # index by global time; column 0 unused
        for c, t, code in case["err"][ki]["cells"]:
            tab[c, t] = code
        out.append(tab)
    return out


def check_log(res, case, log, tabs, t_lo, t_hi, which):
    mon = "error_log_matches_table" if which == "all" else "posterior_error_log_matches_table"
    for ki, tab in enumerate(tabs):
        kid_ = kid(ki)
        res.mon(mon)
        sub = tab[:, t_lo:t_hi]
        mask = np.any(sub != 0, axis=0)
        exp_tr = np.where(mask)[0]
        exp_codes = sub[:, mask]
        if kid_ not in log:
            res.violation("error-log", f"{which}: kernel {kid_} missing from the error log", case)
            continue
        kel = log[kid_]
        got_tr = np.asarray(kel.transition)
        got_codes = np.asarray(kel.error_codes)
        if not np.array_equal(got_tr, exp_tr) or got_codes.shape != exp_codes.shape or not np.array_equal(got_codes, exp_codes):
            res.violation("error-log", f"{which} error log of {kid_}: transitions {got_tr.tolist()} codes "
                          f"{got_codes.tolist()}, prescribed table gives transitions {exp_tr.tolist()} codes "
                          f"{exp_codes.tolist()}", case)
        if kel.kernel_ident != kid_:
            res.violation("error-log", f"kernel ident {kel.kernel_ident} != {kid_}", case)
        exp_cls = ProbeKernelB if ki % 2 else ProbeKernel
        if kel.kernel_cls.is_some() and kel.kernel_cls.unwrap() is not exp_cls:
            res.violation("error-log-class", f"error log of {kid_} carries class {kel.kernel_cls.unwrap().__name__}, the kernel is a "
                          f"{exp_cls.__name__}", case)


def run_case(case):
    import liesel.goose as gs
    from liesel.experimental.arviz import to_arviz_inference_data
    from liesel.goose.engine import SamplingResults

    res = CaseResult(case)
    res.evals = 1
    eng = None
    with liesel_call(res, "engine run", case):
        # (half of the runs store minimised transition infos; the bookkeeping does not depend on that option)
        eng, kernels, states = drive(case, minimize=bool(case["idx"] % 2))
        results = eng.get_results()
    if eng is None:
        return res
    spec = case["spec"]
    C = case["chains"]
    T = total_time(spec)
    fp = first_posterior_time(spec)
    tabs = tables(case)
    # ---- error logs
    with liesel_call(res, "get_error_log", case):
        log_all = results.get_error_log(False).unwrap()
        check_log(res, case, log_all, tabs, 1, T, "all")
        lp = results.get_error_log(True)
        if fp is None:
            if lp.is_some():
                res.violation("error-log", "posterior error log exists although there is no posterior epoch", case)
        else:
            check_log(res, case, lp.unwrap(), tabs, fp, T, "posterior")
    # ---- summary
    codes_present = sorted({int(c) for t in tabs for c in np.unique(t) if c != 0})
    st = stored_times(spec)
    post_n = sum(len(e) for e, (ty, _, _) in zip(st[1:], spec) if ty == 4)
    warm_stored = sum(len(e) for e, (ty, _, _) in zip(st[1:], spec) if ty in (1, 2, 3))
    warm_trans = sum(d for ty, d, _ in spec if ty in (1, 2, 3))
    if fp is not None:
        with liesel_call(res, "Summary", case):
            summ = gs.Summary(results)
            es = summ.error_summary
            for ki, tab in enumerate(tabs):
                kid_ = kid(ki)
                res.mon("summary_counts")
                exp_codes = sorted({int(c) for c in np.unique(tab[:, 1:]) if c != 0})
                got = es.get(kid_, {})
                if sorted(int(c) for c in got) != exp_codes:
                    res.violation("summary-codes", f"summary lists codes {sorted(got)} for {kid_}, table has {exp_codes}", case)
                    continue
                for code in exp_codes:
                    e = got[code]
                    tot = (tab[:, 1:] == code).sum(axis=1)
                    post = (tab[:, fp:] == code).sum(axis=1)
                    if not np.array_equal(np.asarray(e.count_per_chain), tot):
                        res.violation("summary-total", f"{kid_} code {code}: total per chain {np.asarray(e.count_per_chain).tolist()} "
                                      f"!= {tot.tolist()}", case)
                    if e.count_per_chain_posterior is None or not np.array_equal(np.asarray(e.count_per_chain_posterior), post):
                        res.violation("summary-posterior", f"{kid_} code {code}: posterior per chain "
                                      f"{None if e.count_per_chain_posterior is None else np.asarray(e.count_per_chain_posterior).tolist()} "
                                      f"!= {post.tolist()}", case)
                    res.mon("summary_messages")
                    book = (ProbeKernelB if ki % 2 else ProbeKernel).error_book
                    if e.error_msg != book[code] or int(e.error_code) != code:
                        res.violation("summary-message", f"{kid_} code {code}: message {e.error_msg!r}, the kernel's error book says "
                                      f"{book[code]!r}", case)
            # data frames
            for per_chain in (True, False):
                df = summ.error_df(per_chain=per_chain)
                res.mon("error_df_per_chain" if per_chain else "error_df_aggregated")
                exp_rows = {}
                for ki, tab in enumerate(tabs):
                    for code in sorted({int(c) for c in np.unique(tab[:, 1:]) if c != 0}):
                        for phase, sl in (("warmup", slice(1, fp)), ("posterior", slice(fp, T))):
                            cnt = (tab[:, sl] == code).sum(axis=1)
                            if per_chain:
                                for c in range(C):
                                    exp_rows[(kid(ki), code, (ProbeKernelB if ki % 2 else ProbeKernel).error_book[code], phase, c)] = int(cnt[c])
                            else:
                                exp_rows[(kid(ki), code, (ProbeKernelB if ki % 2 else ProbeKernel).error_book[code], phase)] = int(cnt.sum())
                got_rows = {}
                if not df.empty:
                    for idx, row in df.iterrows():
                        idx = tuple(idx)
                        key = (idx[0], int(idx[1]), idx[2], str(idx[3])) + ((int(idx[4]),) if per_chain else ())
                        got_rows[key] = int(row["count"])
                if got_rows != exp_rows:
                    diff = {k: (got_rows.get(k), exp_rows.get(k)) for k in set(got_rows) | set(exp_rows)
                            if got_rows.get(k) != exp_rows.get(k)}
                    res.violation("error-df", f"error_df(per_chain={per_chain}) differs from the table in "
                                  f"{len(diff)} rows, e.g. {list(diff.items())[:3]} (got, expected)", case)
            # sample info
            res.mon("sample_info")
            si = summ.sample_info
            if int(si["num_chains"]) != C or int(si["sample_size_per_chain"]) != post_n:
                res.violation("sample-info", f"sample_info {si} but {C} chains and {post_n} posterior samples are stored", case)
            w = int(si["warmup_size_per_chain"])
            warm_thin = any(k > 1 for ty, _, k in spec if ty in (1, 2, 3))
            if (not warm_thin and w != warm_stored) or (warm_thin and w not in (warm_stored, warm_trans)):
                res.violation("sample-info", f"warmup_size_per_chain={w}; stored warm-up samples {warm_stored}, "
                              f"warm-up transitions {warm_trans}", case)
    else:
        res.skip("no posterior epoch: Summary not applicable")
    # ---- pickle round trip
    import jax

    res.mon("pickle_roundtrip")
    d = tempfile.mkdtemp(prefix="c19-")
    try:
        path = os.path.join(d, "r.pkl")
        with liesel_call(res, "pkl_save/pkl_load", case):
            results.pkl_save(path)
            back = SamplingResults.pkl_load(path)
            for name, a, b in (("positions", results.positions.combine_all().unwrap(), back.positions.combine_all().unwrap()),
                               ("transition_infos", results.transition_infos.combine_all().unwrap(),
                                back.transition_infos.combine_all().unwrap())):
                la = jax.tree_util.tree_leaves(a)
                lb = jax.tree_util.tree_leaves(b)
                if len(la) != len(lb) or any(np.asarray(x).tobytes() != np.asarray(y).tobytes() or
                                             np.asarray(x).dtype != np.asarray(y).dtype for x, y in zip(la, lb)):
                    res.violation("pickle", f"{name} changed by pickle round-trip", case)
            if fp is not None:
                pa = results.get_posterior_samples()
                pb = back.get_posterior_samples()
                if set(pa) != set(pb) or any(not np.array_equal(np.asarray(pa[k]), np.asarray(pb[k])) for k in pa):
                    res.violation("pickle", "posterior samples changed by pickle round-trip", case)
            lb_ = back.get_error_log(False).unwrap()
            check_log(res, case, lb_, tabs, 1, T, "all")
    finally:
        for f in os.listdir(d):
            os.unlink(os.path.join(d, f))
        os.rmdir(d)
    # ---- ArviZ
    if fp is not None:
        post = {k: np.asarray(v) for k, v in results.get_posterior_samples().items()}
        warm = results.positions.combine_filtered(lambda ec: int(ec.type) in (1, 2, 3))
        for inc in (False, True):
            if inc and warm.is_none():
                res.skip("include_warmup without warm-up samples")
                continue
            with liesel_call(res, f"to_arviz_inference_data(include_warmup={inc})", case):
                idat = to_arviz_inference_data(results, include_warmup=inc)
                res.mon("arviz_posterior")
                if set(idat.posterior.data_vars) != set(post):
                    res.violation("arviz", f"posterior group has variables {sorted(idat.posterior.data_vars)}, "
                                  f"stored keys {sorted(post)}", case)
                for k in post:
                    got = np.asarray(idat.posterior[k].values)
                    if got.shape != post[k].shape or not np.array_equal(got, post[k]):
                        res.violation("arviz", f"posterior group of {k}: shape {got.shape} vs stored {post[k].shape} "
                                      "or values differ", case)
                if inc:
                    res.mon("arviz_warmup")
                    wv = {k: np.asarray(v) for k, v in warm.unwrap().items()}
                    if not hasattr(idat, "warmup_posterior"):
                        res.violation("arviz", "no warmup_posterior group although include_warmup=True", case)
                    else:
                        for k in wv:
                            got = np.asarray(idat.warmup_posterior[k].values)
                            if got.shape != wv[k].shape or not np.array_equal(got, wv[k]):
                                res.violation("arviz", f"warmup group of {k}: shape {got.shape} vs stored "
                                              f"{wv[k].shape} or values differ", case)
                elif hasattr(idat, "warmup_posterior"):
                    res.violation("arviz", "warmup_posterior group present although include_warmup=False", case)
    styles = [e["style"] for e in case["err"]]
    if fp is not None and len(codes_present) >= 2 and any((t[:, 1:fp] != 0).any() and (t[:, fp:] != 0).any() for t in tabs):
        res.nontriv(("c19", spec, [e["cells"] for e in case["err"]]))
    res.ev("error_cells", sum(len(e["cells"]) for e in case["err"]))
    res.sample = {"schedule": spec, "chains": C, "table_styles": styles,
                  "cells_kernel0[chain,time,code]": case["err"][0]["cells"][:12], "via": case["via"]}
    return res


def gen_cases(tier, seed):
    n = 48 if tier == "quick" else 2000
    cases = []
    for i in range(n):
        rng = rng_for(seed, "c19", i)
        c = gen_probe_case(rng, seed, i, err=True, modes=("all", "append"))
        if c["via"] == "builder":
            c["multi_init"] = True
        # most cases need a posterior epoch for the summary
        if not any(t == 4 for t, _, _ in c["spec"]) and rng.random() < 0.8:
            d = int(c["spec"][-1][1])
            c["spec"][-1] = [4, d, 1]
        from vlib.enginelab import gen_err

        c["err"] = gen_err(rng, c)
        c["cost"] = 3
        cases.append(c)
    return cases
