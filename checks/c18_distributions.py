"""C18 — custom distributions and bijectors are mathematically consistent.

Oracles: float64 numpy eigendecomposition for the degenerate MVN, the closed-form bivariate
Gaussian copula density, autodiff derivatives for the bijector; sample-moment z-tests."""

from __future__ import annotations

import numpy as np

from vlib.common import CaseResult, exc_mech, off, rng_for

ID = "C18"
RULE = (
    "degenerate MVN: dimensions 1-12, ranks 1..m, batch shapes (),(3,),(2,3); penalties with random "
    "spectrum and RW1/RW2 difference penalties; variances over three decades; points from the "
    "distribution shifted by random null-space vectors; constructors __init__/from_penalty/"
    "from_penalty_smooth with/without rank and log_pdet (penalty constructors also with variances 1e-4..1e8); 40 000 samples "
    "per sampling case, batched variances of very different scales; float32 and x64. Bijector: points in +-[1e-3,30] "
    "(x64: 3e4), inverse applied to independently built arrays. Copula also with batched dependence. Copula: dependence on a grid and random in (-1,1) incl. "
    "+-0.999, points of the unit square, validate_args False/True, eager and jit. Also: integer-typed precision matrices; user-supplied tol and supplied rank at precision norms 1e-7/1e-3/1e4; NumPy loc/precision buffers overwritten after construction. Round 5: forward log-det-Jacobian up to |x| = 1e6 (x64: 1e12) against the closed form. non-trivial = MVN case "
    "with rank<m and a non-zero null-space shift, copula case with |rho|>0.1; distinct by parameter hash"
)
REQUIRED = ["mvn_logprob_vs_oracle", "mvn_nullspace_invariance", "mvn_constructors_agree", "mvn_samples_in_range_space",
            "mvn_sample_covariance", "bijector_roundtrip", "bijector_log_det_jacobian", "copula_density_closed_form",
            "copula_marginals_uniform", "copula_validate_args"]
ANCHORS = ["distributions/mvn_degen.py:MultivariateNormalDegenerate._log_prob",
           "distributions/mvn_degen.py:MultivariateNormalDegenerate.from_penalty",
           "distributions/mvn_degen.py:MultivariateNormalDegenerate.from_penalty_smooth",
           "distributions/mvn_degen.py:MultivariateNormalDegenerate._sample_n",
           "distributions/copulas.py:GaussianCopula.__init__",
           "bijectors/algebraic_sigmoid.py:AlgebraicSigmoid._forward"]
ASSUMPTIONS = [
    "auto-rank clauses are judged where the numerical rank is unambiguous at the class's documented "
    "tolerance 1e-6 in the working precision (x64 always; float32 only if m*2^-23*||P|| < 1e-6/8)",
    "eigh / ndtri / MultivariateNormalTriL are trusted primitives",
]
WORKERS = 16
TIMEOUT = {"quick": 1500, "thorough": 10800}


# ---------------------------------------------------------------- MVN degenerate
def diff_penalty(m, order):
    D = np.eye(m)
    for _ in range(order):
        D = np.diff(D, axis=0)
    return D.T @ D


def gen_penalty(rng, m, r, style):
    """float64 penalty with exact rank r (by construction) and its eigen-decomposition."""
    if style == "rw" and m >= 3:
        order = 1 if r == m - 1 else 2
        K = diff_penalty(m, order)
    else:
        Q, _ = np.linalg.qr(rng.normal(size=(m, m)))
        lam = np.zeros(m)
        lam[:r] = np.exp(rng.uniform(np.log(0.2), np.log(5.0), size=r))
        K = (Q * lam) @ Q.T
        K = (K + K.T) / 2
    return K


def oracle_logprob(x, loc, P, r):
    """Gaussian density on the range space of P (float64)."""
    lam, Q = np.linalg.eigh(P)
    idx = np.argsort(lam)[::-1][:r]
    lam_r = lam[idx]
    xc = np.asarray(x, np.float64) - np.asarray(loc, np.float64)
    quad = xc @ P @ xc
    return float(-0.5 * (r * np.log(2 * np.pi) - np.sum(np.log(lam_r))) - 0.5 * quad), Q[:, idx], lam_r, Q


def pts_for_scaled(rng, loc, P, r):
    lam, Q = np.linalg.eigh(P)
    idx = np.argsort(lam)[::-1][:r]
    return loc + (rng.normal(size=r) / np.sqrt(lam[idx])) @ Q[:, idx].T


def case_mvn(case, res):
    import jax
    import jax.numpy as jnp
    from liesel.distributions import MultivariateNormalDegenerate as MVND

    x64 = bool(case.get("x64"))
    ft = jnp.float64 if x64 else jnp.float32
    rng = rng_for(case["seed"], "c18-mvn", case["idx"])
    m = int(rng.integers(1, 13))
    style = "rw" if (m >= 3 and rng.random() < 0.35) else "spec"
    if style == "rw":
        r = m - int(rng.choice([1, 2]))
    else:
        r = int(rng.integers(1, m + 1))
    r = max(1, r)
    K = gen_penalty(rng, m, r, style)
    var = float(np.exp(rng.uniform(np.log(0.03), np.log(30.0))))
    if case["idx"] % 3 == 0:
        # very small / very large variances: the rank is a property of the penalty, not of pen/var
        var = float(np.exp(rng.uniform(np.log(1e-4), np.log(1e8))))
    P = K / var
    loc = rng.normal(size=m) * 2
    lamK = np.linalg.eigvalsh(K)
    logpdetK = float(np.sum(np.log(np.sort(lamK)[::-1][:r])))
    normP = float(np.linalg.norm(P, 2))
    normK = float(np.linalg.norm(K, 2))
    # auto-rank is meaningful only where the numerical rank is unambiguous at the class's absolute tolerance 1e-6:
    # smallest non-zero eigenvalue well above it, eigenvalue noise well below it
    auto_ok_P = (x64 or m * 2.0 ** -23 * normP < 1e-6 / 8) and np.sort(np.linalg.eigvalsh(P))[::-1][r - 1] > 1e-4
    auto_ok_K = (x64 or m * 2.0 ** -23 * normK < 1e-6 / 8) and np.sort(lamK)[::-1][r - 1] > 1e-4
    tol = (lambda lp: 1e-9 * (1 + abs(lp))) if x64 else (lambda lp: 2e-4 * (1 + abs(lp)))
    w = {"m": m, "rank": r, "style": style, "var": var, "x64": x64}
    _, Qr, lam_r, Qall = oracle_logprob(loc, loc, P, r)
    lamP, QP = np.linalg.eigh(P)
    null = QP[:, np.argsort(lamP)[: m - r]] if r < m else np.zeros((m, 0))
    Pj, Kj, locj = jnp.asarray(P, ft), jnp.asarray(K, ft), jnp.asarray(loc, ft)
    ctors = {}
    logpdetP = logpdetK - r * np.log(var)
    ctors["init(rank,log_pdet)"] = lambda: MVND(locj, Pj, rank=r, log_pdet=jnp.asarray(logpdetP, ft))
    ctors["from_penalty(rank,log_pdet)"] = lambda: MVND.from_penalty(locj, jnp.asarray(var, ft), Kj, rank=r, log_pdet=jnp.asarray(logpdetK, ft))
    ctors["from_penalty_smooth(rank,log_pdet)"] = lambda: MVND.from_penalty_smooth(locj, jnp.asarray(1 / var, ft), Kj, rank=r, log_pdet=jnp.asarray(logpdetK, ft))
    if auto_ok_P:
        ctors["init()"] = lambda: MVND(locj, Pj)
        ctors["init(rank)"] = lambda: MVND(locj, Pj, rank=r)
    if auto_ok_K:
        ctors["from_penalty()"] = lambda: MVND.from_penalty(locj, jnp.asarray(var, ft), Kj)
        ctors["from_penalty(rank)"] = lambda: MVND.from_penalty(locj, jnp.asarray(var, ft), Kj, rank=r)
        ctors["from_penalty_smooth()"] = lambda: MVND.from_penalty_smooth(locj, jnp.asarray(1 / var, ft), Kj)
    if not (auto_ok_P and auto_ok_K):
        res.skip("auto-rank ambiguous in working precision")
    # a user-supplied tolerance: the same distribution family at another overall scale of the precision matrix, where
    # the zero / non-zero split of the eigenvalues is the one the *given* tol defines, not the default 1e-6
    scaled = None
    sc_ = [1e-7, 1e4, 1e-3][case["idx"] % 3]
    Ps = P * (sc_ / max(normP, 1e-300))          # spectral norm sc_
    lam_s = np.sort(np.linalg.eigvalsh(Ps))[::-1]
    noise = m * (2.0 ** -52 if x64 else 2.0 ** -23) * sc_ * 8
    if lam_s[r - 1] > 1e3 * noise:
        utol = float(np.sqrt(lam_s[r - 1] * noise))
        Psj = jnp.asarray(Ps, ft)
        scaled = {"init(tol)": lambda: MVND(locj, Psj, tol=utol), "init(tol,rank)": lambda: MVND(locj, Psj, rank=r, tol=utol),
                  # a supplied rank is honoured whatever the (default) tolerance says about the size of the eigenvalues
                  "init(rank), default tol": lambda: MVND(locj, Psj, rank=r),
                  "from_penalty(rank), default tol": lambda: MVND.from_penalty(locj, jnp.asarray(1.0, ft), Psj, rank=r),
                  "from_penalty_smooth(rank), default tol": lambda: MVND.from_penalty_smooth(locj, jnp.asarray(1.0, ft), Psj, rank=r)}
        w_tol = dict(w, precision_norm=sc_, tol=utol, smallest_nonzero_eigenvalue=float(lam_s[r - 1]))
        for name, mk in scaled.items():
            d = mk()
            for i in range(3):
                x = pts_for_scaled(rng, loc, Ps, r)
                exp, *_ = oracle_logprob(x, loc, Ps, r)
                lp = float(d.log_prob(jnp.asarray(x, ft)))
                res.mon("mvn_user_tolerance_honoured")
                if not np.isfinite(lp) or abs(lp - exp) > tol(exp) * 4:
                    res.violation("mvn-user-tol", f"{name}: precision with spectral norm {sc_:g}, user tol {utol:.3g}: log_prob={lp} "
                                  f"but the range-space Gaussian density (rank {r}) = {exp}", w_tol)
                    break
    else:
        res.skip("no tolerance separates the eigenvalues at this scale")
    # the distribution does not alias the caller's buffers: a NumPy precision matrix / location overwritten in place
    # after the construction changes nothing
    if case["idx"] % 2 == 0:
        npdt = np.float64 if x64 else np.float32
        Pbuf, lbuf = np.array(P, npdt), np.array(loc, npdt)
        dal = MVND(lbuf, Pbuf, rank=r, log_pdet=jnp.asarray(logpdetP, ft))
        xal = jnp.asarray(pts_for_scaled(rng, loc, P, r), ft)
        before_ = float(dal.log_prob(xal))
        Pbuf[...] = np.eye(m) * 7.0
        lbuf[...] = 100.0
        after_ = float(dal.log_prob(xal))
        d_fresh = MVND(jnp.asarray(loc, ft), Pj, rank=r, log_pdet=jnp.asarray(logpdetP, ft))
        res.mon("mvn_not_aliasing_caller_buffers")
        if off(after_, before_, 0.0) or off(before_, float(d_fresh.log_prob(xal)), tol(before_)):
            res.violation("mvn-aliasing", f"log_prob changed from {before_} to {after_} after the caller overwrote the NumPy arrays it "
                          f"had passed as loc / prec (a fresh distribution gives {float(d_fresh.log_prob(xal))})", w)
    # integer-typed precision matrix (D'D of an integer difference matrix)
    if style == "rw":
        # (JAX promotes int32 to float32 and int64 to float64 whatever the x64 flag says: int64 in the x64 cases)
        Ki = np.rint(K).astype(np.int64 if x64 else np.int32)
        if np.array_equal(Ki, K):
            lamKi, QKi = np.linalg.eigh(K)
            for name, mk in {"init(int prec)": lambda: MVND(locj, jnp.asarray(Ki)),
                             "init(int prec,rank)": lambda: MVND(locj, jnp.asarray(Ki), rank=r)}.items():
                d = mk()
                for i in range(3):
                    x = pts_for_scaled(rng, loc, K, r)
                    exp, *_ = oracle_logprob(x, loc, K, r)
                    lp = float(d.log_prob(jnp.asarray(x, ft)))
                    res.mon("mvn_integer_precision")
                    if not np.isfinite(lp) or abs(lp - exp) > tol(exp) * 4:
                        res.violation("mvn-int-precision", f"{name}: integer-typed precision matrix: log_prob={lp} but the "
                                      f"range-space Gaussian density = {exp}", w)
                        break
    # evaluation points: from the distribution (float64 construction), plus null-space shifts
    npts = 6
    z = rng.normal(size=(npts, r))
    pts = loc + (z / np.sqrt(lam_r)) @ Qr.T
    shifts = (rng.normal(size=(npts, m - r)) @ null.T) * rng.choice([0.0, 1.0, 3.0], size=(npts, 1)) if r < m else np.zeros((npts, m))
    vals = {}
    for name, mk in ctors.items():
        d = mk()
        f = jax.jit(d.log_prob) if case["idx"] % 2 else d.log_prob
        got = []
        for i in range(npts):
            x = pts[i] + shifts[i]
            exp, *_ = oracle_logprob(x, loc, P, r)
            lp = float(f(jnp.asarray(x, ft)))
            lp0 = float(f(jnp.asarray(pts[i], ft)))
            res.mon("mvn_logprob_vs_oracle")
            if not abs(lp - exp) <= tol(exp) * (1 + np.linalg.norm(shifts[i]) ** 2 * normP / max(1e-9, 1.0)) or not np.isfinite(lp):
                res.violation("mvn-logprob", f"{name}: log_prob={lp} but range-space Gaussian density={exp} "
                              f"(m={m}, rank={r}, var={var:.3g}, x64={x64})", w)
                break
            if r < m and np.linalg.norm(shifts[i]) > 0:
                res.mon("mvn_nullspace_invariance")
                if off(lp, lp0, tol(exp) * (1 + np.linalg.norm(shifts[i]) ** 2 * normP)):
                    res.violation("mvn-nullspace", f"{name}: log_prob changes by {lp - lp0} under a null-space shift", w)
                    break
            got.append(lp)
        vals[name] = got
    names = list(vals)
    for n2 in names[1:]:
        res.mon("mvn_constructors_agree")
        a, b = np.asarray(vals[names[0]]), np.asarray(vals[n2])
        # rounding of the precision matrix is amplified by |null-space shift|^2 * ||P|| (as in the oracle comparison)
        amp = 1 + np.linalg.norm(shifts, axis=1) ** 2 * normP
        if len(a) == len(b) == npts and np.any(off(a, b, 2 * np.array([tol(v) for v in a]) * amp)):
            res.violation("mvn-constructors", f"{names[0]} and {n2} disagree: {a.tolist()} vs {b.tolist()}", w)
    # batch shapes: loc batch (3,) or (2,3), prec unbatched or batched
    bs = [(), (3,), (2, 3)][case["idx"] % 3]
    if bs:
        locb = loc + rng.normal(size=bs + (m,))
        d = MVND(jnp.asarray(locb, ft), Pj, rank=r, log_pdet=jnp.asarray(logpdetP, ft))
        xb = locb + (rng.normal(size=bs + (r,)) / np.sqrt(lam_r)) @ Qr.T
        lp = np.asarray(d.log_prob(jnp.asarray(xb, ft)))
        res.mon("mvn_logprob_vs_oracle")
        if lp.shape != bs:
            res.violation("mvn-batch-shape", f"batched log_prob has shape {lp.shape}, expected {bs}", w)
        else:
            for ix in np.ndindex(*bs):
                exp, *_ = oracle_logprob(xb[ix], locb[ix], P, r)
                if off(float(lp[ix]), exp, tol(exp)):
                    res.violation("mvn-logprob", f"batched log_prob[{ix}]={float(lp[ix])} vs {exp}", w)
                    break
    if r < m and np.any(np.linalg.norm(shifts, axis=1) > 0):
        res.nontriv(("mvn", m, r, style, round(var, 6), x64))
    res.sample = dict(w, constructors=list(ctors))


def case_mvn_sample(case, res):
    import jax
    import jax.numpy as jnp
    from liesel.distributions import MultivariateNormalDegenerate as MVND

    x64 = bool(case.get("x64"))
    ft = jnp.float64 if x64 else jnp.float32
    rng = rng_for(case["seed"], "c18-mvns", case["idx"])
    m = int(rng.integers(2, 9))
    style = "rw" if (m >= 3 and rng.random() < 0.4) else "spec"
    r = m - int(rng.choice([1, 2])) if style == "rw" else int(rng.integers(1, m + 1))
    r = max(1, r)
    K = gen_penalty(rng, m, r, style)
    var = float(np.exp(rng.uniform(np.log(0.1), np.log(10.0))))
    P = K / var
    if not x64:
        # float32: keep the numerical rank unambiguous at the class tolerance 1e-6 (see ASSUMPTIONS):
        # eigenvalue noise m*2^-23*||P|| must stay below tol/8, the smallest non-zero eigenvalue above 1e-4
        normP = float(np.linalg.norm(P, 2))
        lim = 1e-6 / 8 / (m * 2.0 ** -23)
        if normP > lim:
            var = var * normP / lim
            P = K / var
        lam_chk = np.sort(np.linalg.eigvalsh(P))[::-1]
        if lam_chk[r - 1] < 1e-4:
            res.skip("float32 sampling case with ambiguous numerical rank")
            res.nontriv(("mvns-skip", case["idx"]))
            return
    loc = rng.normal(size=m)
    lam, Q = np.linalg.eigh(P)
    order = np.argsort(lam)[::-1]
    Qr, lam_r = Q[:, order[:r]], lam[order[:r]]
    Q0 = Q[:, order[r:]]
    n = case["n"]
    how = case["idx"] % 3
    if style == "rw" and case["idx"] % 2 == 1:
        # the integer matrix D'D itself as precision (var = 1), integer-typed
        var, P, how = 1.0, K, 3
        lam, Q = np.linalg.eigh(P)
        order = np.argsort(lam)[::-1]
        Qr, lam_r = Q[:, order[:r]], lam[order[:r]]
        Q0 = Q[:, order[r:]]
        d = MVND(jnp.asarray(loc, ft), jnp.asarray(np.rint(K).astype(np.int64 if x64 else np.int32)))
        res.ev("sampling_with_integer_typed_precision")
    elif how == 0:
        d = MVND(jnp.asarray(loc, ft), jnp.asarray(P, ft))
    elif how == 1:
        d = MVND.from_penalty(jnp.asarray(loc, ft), jnp.asarray(var, ft), jnp.asarray(K, ft))
    else:
        d = MVND.from_penalty_smooth(jnp.asarray(loc, ft), jnp.asarray(1 / var, ft), jnp.asarray(K, ft), rank=r)
    s = np.asarray(d.sample(n, seed=jax.random.PRNGKey(int(rng.integers(2 ** 31 - 1)))), np.float64)
    w = {"m": m, "rank": r, "style": style, "var": var, "x64": x64, "n": n}
    res.mon("mvn_samples_in_range_space")
    if s.shape != (n, m):
        res.violation("mvn-sample-shape", f"sample shape {s.shape}", w)
        return
    sc = s - loc
    if r < m:
        leak = np.abs(sc @ Q0).max()
        scale = np.abs(sc).max()
        if not leak <= (1e-9 if x64 else 2e-4) * (1 + scale):
            res.violation("mvn-sample-nullspace", f"samples have a null-space component of size {leak} (sample scale {scale})", w)
    y = (sc @ Qr) * np.sqrt(lam_r)   # should be iid N(0,1)
    zs = []
    for i in range(r):
        zm = y[:, i].mean() * np.sqrt(n)
        zv = (np.mean(y[:, i] ** 2) - 1) * np.sqrt(n / 2)
        zs += [("mean", i, zm), ("var", i, zv)]
    for i in range(min(r, 4)):
        for j in range(i + 1, min(r, 4)):
            zs.append(("cov", (i, j), np.mean(y[:, i] * y[:, j]) * np.sqrt(n)))
    res.mon("mvn_sample_covariance", len(zs))
    bad = [(k, i, round(float(z), 1)) for k, i, z in zs if not abs(z) <= 6]
    if bad:
        res.violation("mvn-sample-covariance", f"samples do not have the pseudo-inverse as covariance: z-scores {bad[:4]} "
                      f"(n={n}, m={m}, rank={r}, constructor #{how})", w)
    res.nontriv(("mvns", m, r, style, round(var, 6), how, x64))
    res.sample = w


# ---------------------------------------------------------------- bijector
def case_bijector(case, res):
    import jax
    import jax.numpy as jnp
    from liesel.bijectors import AlgebraicSigmoid

    x64 = bool(case.get("x64"))
    ft = jnp.float64 if x64 else jnp.float32
    eps = 1e-13 if x64 else 4e-7
    rng = rng_for(case["seed"], "c18-bij", case["idx"])
    b = AlgebraicSigmoid()
    n = 400
    xmax = 3e4 if x64 else 30.0
    x = np.exp(rng.uniform(np.log(1e-3), np.log(xmax), size=n)) * rng.choice([-1, 1], size=n)
    x = np.concatenate([x, [0.0, 1.0, -1.0]])
    xj = jnp.asarray(x, ft)
    y = b.forward(xj)
    xs = np.asarray(xj, np.float64)
    # the inverse is applied to an array built independently of forward() (TFP caches forward/inverse pairs,
    # so inverse(forward(x)) on the same object would be answered from the cache)
    y_indep = jnp.asarray(np.asarray(y).copy())
    back = np.asarray(AlgebraicSigmoid().inverse(y_indep), np.float64)
    res.mon("bijector_roundtrip", len(x))
    bad = np.where(off(back, xs, eps * (1 + xs ** 2) * (1 + np.abs(xs)) + 1e-30))[0]
    if len(bad):
        i = bad[0]
        res.violation("bijector-roundtrip", f"inverse(forward({xs[i]})) = {back[i]}", {"x": float(xs[i]), "x64": x64})
    yy = np.asarray(y, np.float64)
    if np.any(np.abs(yy) >= 1) or np.any(np.sign(yy) != np.sign(xs)) or np.any(np.diff(yy[np.argsort(xs)]) < -1e-12):
        res.violation("bijector-range", "forward leaves (-1,1), flips signs or is not increasing", {"x64": x64})
    exp_y = xs / np.sqrt(1 + xs ** 2)
    if np.any(off(yy, exp_y, 4 * eps)):
        res.violation("bijector-forward", "forward(x) != x/sqrt(1+x^2)", {"x64": x64})
    # log-det-Jacobians vs autodiff derivatives
    fwd = jax.vmap(jax.grad(lambda t: b.forward(t)))(xj)
    fldj = np.asarray(b.forward_log_det_jacobian(xj, event_ndims=0), np.float64)
    res.mon("bijector_log_det_jacobian", 2 * len(x))
    lf = np.log(np.abs(np.asarray(fwd, np.float64)))
    tolj = (1e-9 if x64 else 2e-4)
    # the autodiff derivative 1/sqrt(1+x^2) - x^2/(1+x^2)^(3/2) cancels: relative error ~ eps * x^2 (oracle conditioning)
    cond = (2.3e-16 if x64 else 1.2e-7) * 8 * (1 + xs ** 2)
    bad = np.where(off(fldj, lf, tolj * (1 + np.abs(lf)) + cond))[0]
    if len(bad):
        i = bad[0]
        res.violation("bijector-fldj", f"forward_log_det_jacobian({xs[i]}) = {fldj[i]}, log|f'(x)| = {lf[i]}", {"x": float(xs[i]), "x64": x64})
    # far out, against the closed form of the derivative, d/dx x(1+x^2)^(-1/2) = (1+x^2)^(-3/2), in float64 (the autodiff
    # oracle above cancels there; the closed form does not): |x| up to 1e6 (x64: 1e12), on arrays that never went through
    # forward() (nothing to answer from the bijector cache)
    xb = np.exp(rng.uniform(np.log(30.0), np.log(1e12 if x64 else 1e6), size=200)) * rng.choice([-1, 1], size=200)
    xbj = jnp.asarray(xb, ft)
    xbs = np.asarray(xbj, np.float64)
    fl_big = np.asarray(AlgebraicSigmoid().forward_log_det_jacobian(xbj, event_ndims=0), np.float64)
    lf_big = -1.5 * np.log1p(xbs ** 2)
    res.mon("bijector_log_det_jacobian", len(xb))
    bad = np.where(off(fl_big, lf_big, tolj * (1 + np.abs(lf_big))))[0]
    if len(bad):
        i = bad[0]
        res.violation("bijector-fldj", f"forward_log_det_jacobian({xbs[i]}) = {fl_big[i]}, log|f'(x)| = -1.5*log(1+x^2) = {lf_big[i]}",
                      {"x": float(xbs[i]), "x64": x64})
    yq = jnp.asarray(np.clip(rng.uniform(-0.995, 0.995, size=n), -0.995, 0.995), ft)
    inv = jax.vmap(jax.grad(lambda t: b.inverse(t)))(yq)
    ildj = np.asarray(b.inverse_log_det_jacobian(yq, event_ndims=0), np.float64)
    li = np.log(np.abs(np.asarray(inv, np.float64)))
    bad = np.where(off(ildj, li, tolj * (1 + np.abs(li)) * 5))[0]
    if len(bad):
        i = bad[0]
        res.violation("bijector-ildj", f"inverse_log_det_jacobian({float(yq[i])}) = {ildj[i]}, log|g'(y)| = {li[i]}", {"x64": x64})
    # consistency fldj(x) = -ildj(f(x))
    ild2 = np.asarray(b.inverse_log_det_jacobian(y, event_ndims=0), np.float64)
    ild2 = np.asarray(AlgebraicSigmoid().inverse_log_det_jacobian(y_indep, event_ndims=0), np.float64)
    sel = np.abs(xs) < (1e3 if x64 else 5)
    if np.any(off(fldj[sel], -ild2[sel], (1e-6 * (1 + xs[sel] ** 2) if x64 else 2e-3))):
        res.violation("bijector-ldj-consistency", "forward and inverse log-det-Jacobians are not negatives of each other", {"x64": x64})
    res.evals = len(x)
    res.nontriv(("bij", case["idx"], x64))
    res.sample = {"points": xs[:5].tolist(), "x64": x64}


# ---------------------------------------------------------------- copula
def copula_oracle(u, v, rho):
    from scipy.special import ndtri

    a, b = ndtri(u), ndtri(v)
    return -0.5 * np.log1p(-rho ** 2) - (rho ** 2 * (a ** 2 + b ** 2) - 2 * rho * a * b) / (2 * (1 - rho ** 2))


def case_copula(case, res):
    import jax
    import jax.numpy as jnp
    from liesel.distributions import GaussianCopula
    from scipy import stats

    x64 = bool(case.get("x64"))
    ft = jnp.float64 if x64 else jnp.float32
    rng = rng_for(case["seed"], "c18-cop", case["idx"])
    grid = [-0.999, -0.9, -0.5, -0.3, -0.1, 0.0, 0.1, 0.3, 0.5, 0.9, 0.999]
    rho = float(grid[case["idx"] % len(grid)]) if case["idx"] % 2 == 0 else float(rng.uniform(-0.98, 0.98))
    validate = bool(case["idx"] % 4 >= 2)
    w = {"rho": rho, "validate_args": validate, "x64": x64}
    res.mon("copula_validate_args")
    try:
        d = GaussianCopula(jnp.asarray(rho, ft), validate_args=validate)
    except Exception as exc:  # noqa: BLE001
        mech, text = exc_mech(exc)
        if mech is None:
            raise
        res.violation("copula-construction-fails", f"GaussianCopula(dependence={rho}, validate_args={validate}) raised "
                      f"{type(exc).__name__}: dependence in (-1,1) is admissible", w)
        return
    lo = 1e-6 if x64 else 2e-3
    n = 60
    u = rng.uniform(lo, 1 - lo, size=n)
    v = rng.uniform(lo, 1 - lo, size=n)
    if x64:
        u[:6] = [1e-6, 1 - 1e-6, 1e-6, 0.5, 1e-4, 0.999]
        v[:6] = [1e-6, 1 - 1e-6, 1 - 1e-6, 1e-5, 0.5, 0.999]
    uv = jnp.asarray(np.stack([u, v], -1), ft)
    f = jax.jit(d.log_prob) if case["idx"] % 3 == 0 else d.log_prob
    try:
        got = np.asarray(f(uv), np.float64)
    except Exception as exc:  # noqa: BLE001
        mech, text = exc_mech(exc)
        if mech is None and "liesel" not in text:
            # raised inside TFP on behalf of the copula (validation) - still the copula's failure
            pass
        res.violation("copula-logprob-raises", f"log_prob raised {type(exc).__name__}: {str(exc)[:200]}", w)
        return
    uu = np.asarray(uv, np.float64)
    exp = copula_oracle(uu[:, 0], uu[:, 1], np.float64(np.asarray(jnp.asarray(rho, ft))))
    res.mon("copula_density_closed_form", n)
    rel = 1e-8 if x64 else 3e-3 / max(1e-3, (1 - abs(rho)))  # float32: conditioning grows as |rho| -> 1
    bad = np.where(off(got, exp, rel * (1 + np.abs(exp))))[0]
    if len(bad):
        i = bad[0]
        res.violation("copula-density", f"log_prob(u={uu[i, 0]:.6g}, v={uu[i, 1]:.6g}; rho={rho}) = {got[i]}, closed form = {exp[i]}", w)
    # marginals uniform, dependence has the right sign/size
    if case.get("sample", True):
        ns = case["n"]
        s = np.asarray(d.sample(ns, seed=jax.random.PRNGKey(int(rng.integers(2 ** 31 - 1)))), np.float64)
        res.mon("copula_marginals_uniform", 2)
        if s.shape != (ns, 2) or np.any(s < 0) or np.any(s > 1):
            res.violation("copula-sample-range", f"samples of shape {s.shape} outside the unit square", w)
        else:
            for j in (0, 1):
                p = stats.kstest(s[:, j], "uniform").pvalue
                if p < 1e-7:
                    res.violation("copula-marginal", f"marginal {j} not uniform: KS p={p:.2g} (n={ns})", w)
            from scipy.special import ndtri
            zz = ndtri(np.clip(s, 1e-12, 1 - 1e-12))
            rhat = np.mean(zz[:, 0] * zz[:, 1])
            se = np.sqrt((1 + rho ** 2) / ns)
            if off(rhat, rho, 6 * se + 1e-3):
                res.violation("copula-dependence", f"samples have normal-score correlation {rhat:.4f}, dependence is {rho}", w)
    if abs(rho) > 0.1:
        res.nontriv(("cop", round(rho, 6), validate, x64))
    res.evals = n
    res.sample = w


def case_copula_batch(case, res):
    """Batched dependence (1-3 batch dimensions, non-symmetric values): member [i,j] uses dependence[i,j]."""
    import jax.numpy as jnp
    from liesel.distributions import GaussianCopula

    x64 = bool(case.get("x64"))
    ft = jnp.float64 if x64 else jnp.float32
    rng = rng_for(case["seed"], "c18-copb", case["idx"])
    bs = [(3,), (2, 3), (3, 2), (2, 2), (2, 3, 2)][case["idx"] % 5]
    rho = np.round(rng.uniform(-0.9, 0.9, size=bs), 3)
    validate = bool(case["idx"] % 2)
    w = {"batch_shape": list(bs), "rho": rho.tolist(), "validate_args": validate, "x64": x64}
    try:
        d = GaussianCopula(jnp.asarray(rho, ft), validate_args=validate)
        lo = 1e-4 if x64 else 5e-3
        uv = rng.uniform(lo, 1 - lo, size=bs + (2,))
        got = np.asarray(d.log_prob(jnp.asarray(uv, ft)), np.float64)
    except Exception as exc:  # noqa: BLE001
        res.violation("copula-batch-raises", f"batched dependence of shape {bs} raised {type(exc).__name__}: {str(exc)[:200]}", w)
        return
    uu = np.asarray(jnp.asarray(uv, ft), np.float64)
    rr = np.asarray(jnp.asarray(rho, ft), np.float64)
    exp = copula_oracle(uu[..., 0], uu[..., 1], rr)
    res.mon("copula_density_closed_form", int(np.prod(bs)))
    rel = 1e-8 if x64 else 3e-2
    if got.shape != exp.shape or np.any(off(got, exp, rel * (1 + np.abs(exp)))):
        res.violation("copula-density", f"batched copula (batch shape {bs}): log_prob {np.round(got, 4).tolist()} vs closed form "
                      f"{np.round(exp, 4).tolist()}", w)
    if tuple(d.batch_shape) != tuple(bs):
        res.violation("copula-batch-shape", f"batch_shape {tuple(d.batch_shape)} != {bs}", w)
    res.nontriv(("copb", case["idx"], x64))
    res.sample = w


def case_mvn_batch_sample(case, res):
    """Sampling from a *batch* of precisions with very different scales: every member's samples must lie in
    its range space and have its own pseudo-inverse as covariance."""
    import jax
    import jax.numpy as jnp
    from liesel.distributions import MultivariateNormalDegenerate as MVND

    rng = rng_for(case["seed"], "c18-mvnb", case["idx"])
    m = int(rng.integers(3, 7))
    K = diff_penalty(m, int(rng.choice([1, 2])))
    r = int(np.linalg.matrix_rank(K))
    vars_ = np.array([1e-3, 1.0, 1e2]) * float(np.exp(rng.uniform(-1, 1)))
    loc = rng.normal(size=m)
    n = case["n"]
    d = MVND.from_penalty(jnp.asarray(loc, jnp.float64), jnp.asarray(vars_, jnp.float64), jnp.asarray(K, jnp.float64), rank=r)
    s = np.asarray(d.sample(n, seed=jax.random.PRNGKey(int(rng.integers(2 ** 31 - 1)))), np.float64)
    w = {"m": m, "rank": r, "vars": vars_.tolist(), "n": n}
    res.mon("mvn_samples_in_range_space")
    if s.shape != (n, 3, m):
        res.violation("mvn-sample-shape", f"batched sample shape {s.shape}, expected {(n, 3, m)}", w)
        return
    lamK, Q = np.linalg.eigh(K)
    order = np.argsort(lamK)[::-1]
    Qr, lam_r, Q0 = Q[:, order[:r]], lamK[order[:r]], Q[:, order[r:]]
    for j, v in enumerate(vars_):
        sc = s[:, j, :] - loc
        if not np.abs(sc @ Q0).max() <= 1e-8 * (1 + np.abs(sc).max()):
            res.violation("mvn-sample-nullspace", f"batch member {j}: samples leave the range space", w)
        y = (sc @ Qr) * np.sqrt(lam_r / v)
        zs = [(np.mean(y[:, i] ** 2) - 1) * np.sqrt(n / 2) for i in range(r)] + [y[:, i].mean() * np.sqrt(n) for i in range(r)]
        res.mon("mvn_sample_covariance", len(zs))
        if not all(abs(z) <= 6 for z in zs):
            res.violation("mvn-sample-covariance", f"batch member {j} (variance {v:.3g}): samples do not have covariance var*pinv(K): "
                          f"z-scores up to {max(abs(z) for z in zs):.1f}; sample variances along eigen-directions "
                          f"{np.round(np.var(sc @ Qr, axis=0), 6).tolist()} vs {np.round(v / lam_r, 6).tolist()}", w)
    res.nontriv(("mvnb", case["idx"]))
    res.sample = w


def gen_cases(tier, seed):
    q = tier == "quick"
    cases = []
    for i in range(6 if q else 200):
        cases.append({"kind": "mvnb", "idx": i, "seed": seed, "x64": True, "n": 20000, "cost": 2})
    for i in range(20 if q else 800):
        cases.append({"kind": "copb", "idx": i, "seed": seed, "x64": bool((i // 5) % 2), "cost": 1})
    for i in range(160 if q else 12000):
        cases.append({"kind": "mvn", "idx": i, "seed": seed, "x64": bool(i % 2), "cost": 2})
    for i in range(24 if q else 1200):
        cases.append({"kind": "mvns", "idx": i, "seed": seed, "x64": bool(i % 2), "n": 40000, "cost": 3})
    for i in range(8 if q else 200):
        cases.append({"kind": "bij", "idx": i, "seed": seed, "x64": bool(i % 2), "cost": 1})
    for i in range(88 if q else 4800):
        cases.append({"kind": "cop", "idx": i, "seed": seed, "x64": bool((i // 11) % 2), "n": 20000,
                      "sample": (i % 3 == 0), "cost": 2})
    return cases


def run_case(case):
    res = CaseResult(case)
    res.evals = 1
    {"mvn": case_mvn, "mvns": case_mvn_sample, "bij": case_bijector, "cop": case_copula, "copb": case_copula_batch, "mvnb": case_mvn_batch_sample}[case["kind"]](case, res)
    return res
