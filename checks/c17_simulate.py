"""C17 — Model.simulate() draws a joint ancestral sample (sharp-conditional monitor)."""

from __future__ import annotations

import numpy as np

from vlib.common import CaseResult, exc_mech, rng_for, struct_hash

ID = "C17"
RULE = (
    "random hierarchies of depth 1-4: wide-scale root variables, children with tiny-scale Normal "
    "distributions around an affine function of their parents reached directly, through cached Calc, "
    "TransientCalc and weak-Var intermediates (wired through the Var or directly to its value node), closures and TFP classes "
    "with positional/keyword inputs, per_obs True/False; scalar/vector/matrix values with sample and batch shapes; "
    "skip sets by variable, distribution-node and proxy-node name; both auto_update settings; repeated "
    "simulation. A child must sit at f(NEW parent draw): a stale evaluation is off by O(parent scale). "
    "Also: integer placeholders (draws independent of the placeholder dtype); hyper-parameters re-assigned right before simulate() with auto-update off; a leaf placeholder of another shape between two simulations. Round 5: a third round after restoring an earlier state with the roots skipped. non-trivial = program with a cached intermediate between a drawn parent and a drawn child, simulated "
    "with auto-update off; distinct by (program, skip set, setting) hash"
)
REQUIRED = ["independent_noise", "child_at_f_of_new_parent", "root_draw_standardised", "shape_preserved", "skipped_untouched",
            "seed_determines_result", "auto_update_independent", "coherent_after_update"]
ANCHORS = ["model/model.py:Model.simulate", "model/model.py:Model._build_simulation_graph", "model/nodes.py:Dist.init_dist"]
ASSUMPTIONS = ["distributions sit on strong variables (weak distributed variables make simulate raise by documentation)",
               "skipping by a variable's value-node name is not exercised (the documentation does not promise it)"]
WORKERS = 16
TIMEOUT = {"quick": 1500, "thorough": 10800}


def gen_prog(rng):
    shape = [[], [], [4], [3], [2, 3]][int(rng.integers(5))]
    units = []
    n_roots = int(rng.integers(1, 4))
    for i in range(n_roots):
        units.append({"kind": "root", "name": f"r{i}", "m0": float(rng.integers(-50, 51)),
                      "s0": float(rng.choice([10.0, 100.0, 1000.0])), "per_obs": bool(rng.random() < 0.7),
                      "shape": shape if rng.random() < 0.7 else [],
                      # the location comes from a hyper-parameter (a strong variable without distribution) through a
                      # cached calculation; it is re-assigned right before simulate()
                      "hyper": bool(rng.random() < 0.4)})
    n_more = int(rng.integers(1, 8))
    for _ in range(n_more):
        ui = len(units)
        drawn = [j for j, u in enumerate(units) if u["kind"] in ("root", "child")]
        anyu = list(range(len(units)))
        r = rng.random()
        if r < 0.4:
            k = int(rng.integers(1, min(2, len(anyu)) + 1))
            ps = [int(x) for x in rng.choice(anyu, size=k, replace=False)]
            units.append({"kind": str(rng.choice(["calc", "calc", "tcalc", "wvar"])), "name": f"i{ui}", "parents": ps,
                          "via_value_node": bool(rng.random() < 0.3),
                          "coef": [float(rng.integers(-3, 4))] + [float(rng.choice([-2, -1, 1, 2])) for _ in ps]})
        else:
            p = int(rng.choice(anyu))
            units.append({"kind": "child", "name": f"c{ui}", "parent": p,
                          "a": float(rng.integers(-5, 6)), "b": float(rng.choice([-2, -1, 1, 2])),
                          "scale": float(rng.choice([1e-4, 1e-4, 1e-4, 5.0])),
                          "shape": shape if rng.random() < 0.8 else [],
                          # how the distribution is wired: through a closure over one positional input, or a
                          # TFP class with a cached location Calc passed positionally / by keyword
                          "wiring": str(rng.choice(["closure", "loc_kw", "loc_pos", "loc_kw_scale_pos"])),
                          "per_obs": bool(rng.random() < 0.7)})
        _ = drawn
    return {"shape": shape, "units": units}


def unit_shape(units, ui):
    u = units[ui]
    if u["kind"] in ("root", "child"):
        own = tuple(u["shape"])
        if u["kind"] == "child":
            ps = unit_shape(units, u["parent"])
            return np.broadcast_shapes(own, ps)
        return own
    sh = ()
    for p in u["parents"]:
        sh = np.broadcast_shapes(sh, unit_shape(units, p))
    return sh


def build(desc):
    import jax.numpy as jnp
    import liesel.model as lsl
    import tensorflow_probability.substrates.jax.distributions as tfd

    units = desc["units"]
    objs = []
    for ui, u in enumerate(units):
        if u["kind"] == "root":
            if u.get("hyper"):
                hv = lsl.Var(jnp.asarray(u["m0"], jnp.float32), name="h_" + u["name"])
                d = lsl.Dist(tfd.Normal, loc=lsl.Calc(lambda h: h * 1.0, hv, _name="hloc_" + u["name"]), scale=u["s0"])
            else:
                d = lsl.Dist(tfd.Normal, loc=u["m0"], scale=u["s0"])
            d.per_obs = u.get("per_obs", True)
            v = lsl.Var(jnp.zeros(tuple(u["shape"]), jnp.float32), d, name=u["name"])
            objs.append(v)
        elif u["kind"] == "child":
            wiring = u.get("wiring", "closure")
            if wiring == "closure":
                d = lsl.Dist(_child_dist(u["a"], u["b"], u["scale"]), objs[u["parent"]])
            else:
                locn = lsl.Calc(_affine([u["a"], u["b"]]), objs[u["parent"]])
                if wiring == "loc_kw":
                    d = lsl.Dist(tfd.Normal, loc=locn, scale=u["scale"])
                elif wiring == "loc_pos":
                    d = lsl.Dist(tfd.Normal, locn, scale=u["scale"])
                else:
                    d = lsl.Dist(lambda scale, loc: tfd.Normal(loc=loc, scale=scale), u["scale"], loc=locn)
            d.per_obs = u.get("per_obs", True)
            sh = unit_shape(units, ui)
            v = lsl.Var(jnp.zeros(sh, jnp.float32), d, name=u["name"])
            objs.append(v)
        else:
            f = _affine(u["coef"])
            ins = [objs[p] for p in u["parents"]]
            if u.get("via_value_node"):
                # the user wires the variable's value node itself (not the Var / its proxy)
                ins = [o.value_node if isinstance(o, lsl.Var) else o for o in ins]
            if u["kind"] == "calc":
                objs.append(lsl.Calc(f, *ins, _name=u["name"]))
            elif u["kind"] == "tcalc":
                objs.append(lsl.TransientCalc(f, *ins, _name=u["name"]))
            else:
                objs.append(lsl.Var(lsl.Calc(f, *ins), name=u["name"]))
    gb = lsl.GraphBuilder()
    for o in objs:
        gb.add(o)
    return gb.build_model(), objs


def _affine(coef):
    import jax.numpy as jnp

    def f(*xs):
        out = jnp.asarray(coef[0], jnp.float32)
        for c, x in zip(coef[1:], xs):
            out = out + jnp.asarray(c, jnp.float32) * x
        return out
    return f


def _child_dist(a, b, scale):
    import tensorflow_probability.substrates.jax.distributions as tfd

    def make(p):
        return tfd.Normal(loc=a + b * p, scale=scale)
    return make


def spec_eval(units, vals, ui):
    """float64 value of intermediate / expected location, from current drawn values."""
    u = units[ui]
    if u["kind"] in ("root", "child"):
        return np.asarray(vals[ui], np.float64)
    out = np.float64(u["coef"][0])
    for c, p in zip(u["coef"][1:], u["parents"]):
        out = out + c * spec_eval(units, vals, p)
    return out


def run_sim(desc, auto, seed_int, skip_names, pre_values=None):
    """Build a fresh model, optionally load values, simulate once; returns (model, objs)."""
    import jax

    model, objs = build(desc)
    if pre_values is not None:
        model.auto_update = False
        for ui, v in pre_values.items():
            objs[ui].value = v
        model.update()
    model.auto_update = auto
    model.simulate(jax.random.PRNGKey(seed_int), skip=skip_names)
    return model, objs


def drawn_values(desc, objs):
    return {ui: np.asarray(objs[ui].value) for ui, u in enumerate(desc["units"]) if u["kind"] in ("root", "child")}


def run_case(case):
    import jax
    import tensorflow_probability.substrates.jax.distributions as tfd

    res = CaseResult(case)
    res.evals = 1
    rng = rng_for(case["seed"], "c17", case["idx"])
    desc = gen_prog(rng)
    units = desc["units"]
    drawn = [ui for ui, u in enumerate(units) if u["kind"] in ("root", "child")]
    # skip set
    skip_units = [ui for ui in drawn if rng.random() < 0.2]
    skip_names = []
    for ui in skip_units:
        style = rng.random()
        nm = units[ui]["name"]
        skip_names.append(nm if style < 0.5 else (nm + "_log_prob" if style < 0.8 else nm + "_var_value"))
    auto = bool(case["auto"])
    w = {"units": units, "skip": skip_names, "auto_update": auto}
    try:
        model, objs = build(desc)
        # give everything a known, non-trivial current value first
        model.auto_update = False
        base = {}
        for ui in drawn:
            sh = np.shape(objs[ui].value)
            # whole-number placeholders; in a third of the cases some of them are integer arrays (np.zeros(n, int) style)
            as_int = case["idx"] % 3 == 0 and rng.random() < 0.5
            base[ui] = np.asarray(rng.integers(-3, 4, size=sh), np.int32 if as_int else np.float32)
            if as_int:
                res.ev("integer_placeholder")
            objs[ui].value = jax.numpy.asarray(base[ui])
        model.update()
        model.auto_update = auto
        n_rounds = 3
        base_state = model.state     # the coherent starting state, restored before the third round
        skip_units0, skip_names0 = list(skip_units), list(skip_names)
        m0_now = {ui: units[ui]["m0"] for ui in drawn if units[ui]["kind"] == "root"}
        shared: dict = {}
        prev = dict(base)
        for rd in range(n_rounds):
            seed_int = int(rng.integers(0, 2 ** 31 - 1))
            if rd == 2:
                # posterior-predictive pattern: an earlier state is restored (model.state = saved) and everything below the
                # roots is simulated again with the roots skipped: children sit at f(RESTORED parents)
                model.state = base_state
                prev = dict(base)
                m0_now = {ui: units[ui]["m0"] for ui in drawn if units[ui]["kind"] == "root"}
                roots_ = [ui for ui in drawn if units[ui]["kind"] == "root" and ui not in skip_units0]
                skip_units = skip_units0 + roots_
                skip_names = skip_names0 + [units[ui]["name"] for ui in roots_]
                res.ev("simulate_after_state_restore_with_roots_skipped")
            before_state = {k: (None if v.value is None else np.asarray(v.value).copy()) for k, v in model.state.items()}
            # in the second round a leaf variable gets a placeholder of another shape (two stacked samples): the draw
            # follows the shape of the value that is current when simulate() is called
            if rd == 1:
                used = {u_.get("parent") for u_ in units if u_["kind"] == "child"} | {p_ for u_ in units if "parents" in u_ for p_ in u_["parents"]}
                leaves = [ui for ui in drawn if ui not in used and ui not in skip_units]
                if leaves:
                    lf = leaves[int(rng.integers(len(leaves)))]
                    ph = np.zeros((2,) + prev[lf].shape, np.float32)
                    objs[lf].value = jax.numpy.asarray(ph)
                    prev[lf] = ph
                    res.ev("placeholder_shape_changed_between_simulations")
            # hyper-parameters change right before the simulation (with auto-update off: no update() in between)
            for ui in (drawn if rd < 2 else []):
                if units[ui].get("hyper"):
                    m0_now[ui] = float(rng.integers(-50, 51)) + (2000.0 if rd == 0 else -2000.0)
                    model.vars["h_" + units[ui]["name"]].value = jax.numpy.asarray(m0_now[ui], jax.numpy.float32)
                    res.ev("hyperparameter_changed_before_simulate" + ("" if auto else "_no_update"))
            model.simulate(jax.random.PRNGKey(seed_int), skip=skip_names)
            new = drawn_values(desc, objs)
            for ui in drawn:
                u = units[ui]
                res.mon("shape_preserved")
                if new[ui].shape != prev[ui].shape:
                    res.violation("shape-changed", f"{u['name']}: shape {prev[ui].shape} -> {new[ui].shape}", w)
                    continue
                if ui in skip_units:
                    res.mon("skipped_untouched")
                    if new[ui].tobytes() != prev[ui].tobytes():
                        res.violation("skipped-variable-changed", f"skipped variable {u['name']} (skip entry "
                                      f"{skip_names[skip_units.index(ui)]}) changed", w)
                    continue
                if u["kind"] == "root":
                    z = (new[ui].astype(np.float64) - m0_now[ui]) / u["s0"]
                    res.mon("root_draw_standardised", z.size)
                    if np.any(~(np.abs(z) <= 7)) or (z.size and np.array_equal(new[ui], prev[ui])):
                        zs = (new[ui].astype(np.float64) - u["m0"]) / u["s0"]
                        mech = "stale-ancestor-values" if u.get("hyper") and bool(np.all(np.abs(zs) <= 7)) else "root-draw"
                        res.violation(mech, f"root {u['name']}: standardised draw {z.ravel()[:4].tolist()} "
                                      f"(not a fresh N(m0,s0) draw; m0 = {m0_now[ui]}" +
                                      (", set through its hyper-parameter right before simulate(); the build-time value was "
                                       f"{u['m0']}; auto_update={auto})" if u.get("hyper") else ")"), w)
                    res.extra = (res.extra or []) + [float(x) for x in z.ravel()[:8]]
                else:
                    loc = u["a"] + u["b"] * spec_eval(units, new, u["parent"])
                    loc_stale = u["a"] + u["b"] * spec_eval(units, prev, u["parent"])
                    dev = np.abs(new[ui].astype(np.float64) - loc)
                    tol = 8 * u["scale"] + 2e-5 * np.abs(loc) + 2e-3
                    res.mon("child_at_f_of_new_parent")
                    if np.any(~(dev <= tol)):
                        near_stale = bool(np.all(np.abs(new[ui].astype(np.float64) - loc_stale)
                                                 <= 8 * u["scale"] + 2e-5 * np.abs(loc_stale) + 2e-3))
                        mech = "stale-ancestor-values" if near_stale else "child-not-at-conditional"
                        res.violation(mech, f"round {rd}: child {u['name']} drawn at {new[ui].ravel()[:3].tolist()} but its "
                                      f"distribution at the newly drawn ancestors is centred at {np.ravel(loc)[:3].tolist()} "
                                      f"(scale {u['scale']}); centred at the OLD ancestor values it would be "
                                      f"{np.ravel(loc_stale)[:3].tolist()}; auto_update={auto}", w)
            # independent noise: no two drawn variables may share their standardised noise
            noise = {}
            for ui in drawn:
                u = units[ui]
                if ui in skip_units:
                    continue
                if u["kind"] == "root":
                    noise[ui] = (new[ui].astype(np.float64) - m0_now[ui]) / u["s0"]
                elif u["scale"] > 1:
                    loc = u["a"] + u["b"] * spec_eval(units, new, u["parent"])
                    noise[ui] = (new[ui].astype(np.float64) - loc) / u["scale"]
            ks = sorted(noise)
            for i in range(len(ks)):
                for j in range(i + 1, len(ks)):
                    a_, b_ = np.ravel(noise[ks[i]]), np.ravel(noise[ks[j]])
                    if a_.size != b_.size:
                        continue
                    res.mon("independent_noise")
                    if np.allclose(a_, b_, atol=1e-4):
                        shared[(ks[i], ks[j])] = shared.get((ks[i], ks[j]), 0) + 1
                        # a chance coincidence has probability ~1e-4 per element: demand >= 3
                        # coinciding elements, or a coincidence in every simulation round
                        if a_.size >= 3 or shared[(ks[i], ks[j])] == 2:
                            res.violation("shared-noise", f"variables {units[ks[i]]['name']} and {units[ks[j]]['name']} were "
                                          f"drawn with identical standardised noise {a_[:3].tolist()} (keys not split)", w)
            # untouched: everything that is not a drawn variable's value must be consistent after update
            model.update()
            res.mon("coherent_after_update")
            bad = [nm for nm, nd in model.nodes.items() if nd.outdated]
            if bad:
                res.violation("outdated-after-update", f"nodes outdated after simulate+update: {bad[:5]}", w)
            for ui, u in enumerate(units):
                if u["kind"] in ("calc", "tcalc", "wvar"):
                    o = objs[ui]
                    got = np.asarray(o.value, np.float64)
                    exp = spec_eval(units, new, ui)
                    if got.shape != np.shape(exp) or not np.allclose(got, exp, rtol=1e-5, atol=1e-3):
                        res.violation("incoherent-after-update", f"intermediate {u['name']} = {got.ravel()[:3].tolist()} "
                                      f"!= from-scratch {np.ravel(exp)[:3].tolist()} after simulate+update", w)
                elif u["kind"] in ("root", "child"):
                    o = objs[ui]
                    if u["kind"] == "root":
                        exp = tfd.Normal(m0_now[ui], u["s0"]).log_prob(o.value)
                    else:
                        pv = objs[u["parent"]].value
                        exp = tfd.Normal(u["a"] + u["b"] * pv, u["scale"]).log_prob(o.value)
                    if not u.get("per_obs", True):
                        exp = np.sum(np.asarray(exp))
                    if not np.allclose(np.asarray(o.log_prob), np.asarray(exp), rtol=1e-5, atol=1e-4 * max(1, np.size(o.value))):
                        res.violation("incoherent-after-update", f"log_prob of {u['name']} not recomputed from current values", w)
            _ = before_state
            prev = new
        skip_units, skip_names = skip_units0, skip_names0
        # determinism and auto-update independence from a common starting point
        s = int(rng.integers(0, 2 ** 31 - 1))
        pre = {ui: jax.numpy.asarray(base[ui]) for ui in drawn}
        mA, oA = run_sim(desc, auto, s, skip_names, pre)
        mB, oB = run_sim(desc, auto, s, skip_names, pre)
        mC, oC = run_sim(desc, not auto, s, skip_names, pre)
        mD, oD = run_sim(desc, auto, s + 1, skip_names, pre)
        vA, vB, vC, vD = (drawn_values(desc, o) for o in (oA, oB, oC, oD))
        # the draw depends on the shape of the current value only: the same whole-number placeholders as int32 arrays
        pre_i = {ui: jax.numpy.asarray(np.asarray(base[ui], np.int32 if np.asarray(base[ui]).dtype.kind == "f" else np.float32))
                 for ui in drawn}
        mE, oE = run_sim(desc, auto, s, skip_names, pre_i)
        vE = drawn_values(desc, oE)
        res.mon("placeholder_dtype_independent")
        for k in vA:
            if vA[k].shape != vE[k].shape or not np.allclose(vA[k].astype(np.float64), vE[k].astype(np.float64), rtol=1e-5, atol=2e-3):
                res.violation("depends-on-placeholder-dtype", f"{units[k]['name']}: simulate(seed) gives {vA[k].ravel()[:3].tolist()} "
                              f"when the current value is a {np.asarray(base[k]).dtype} array but {vE[k].ravel()[:3].tolist()} when it "
                              f"holds the same numbers as {np.asarray(pre_i[k]).dtype}", w)
                break
        res.mon("seed_determines_result")
        if any(vA[k].tobytes() != vB[k].tobytes() for k in vA):
            res.violation("not-deterministic", "two simulations with the same seed differ", w)
        free = [k for k in vA if k not in skip_units]
        if free and all(np.array_equal(vA[k], vD[k]) for k in free):
            res.violation("seed-ignored", "different seeds give identical simulations", w)
        res.mon("auto_update_independent")
        for k in vA:
            if not np.allclose(vA[k], vC[k], rtol=1e-5, atol=2e-3):
                res.violation("depends-on-auto-update", f"{units[k]['name']}: simulate(seed) gives {vA[k].ravel()[:3].tolist()} with "
                              f"auto_update={auto} but {vC[k].ravel()[:3].tolist()} with auto_update={not auto}", w)
                break
    except Exception as exc:  # noqa: BLE001
        mech, text = exc_mech(exc)
        if mech is None:
            raise
        res.violation(mech, f"simulate raised on an in-domain model\n{text}", w)
        return res
    # non-triviality: cached intermediate between a drawn parent and a drawn (non-skipped) child, auto off
    def has_cached_between(ui):
        p = units[ui]["parent"]
        return units[p]["kind"] in ("calc", "wvar") and _reaches_drawn(units, p, skip_units)
    if not auto and any(units[ui]["kind"] == "child" and ui not in skip_units and has_cached_between(ui) for ui in drawn):
        res.nontriv(struct_hash([desc, skip_names, auto]))
    res.sample = {"units": units[:8], "skip": skip_names, "auto_update": auto}
    return res


def _reaches_drawn(units, ui, skip_units):
    u = units[ui]
    if u["kind"] in ("root", "child"):
        return ui not in skip_units
    return any(_reaches_drawn(units, p, skip_units) for p in u["parents"])


def finalize(ctx):
    zs = []
    for r in ctx.results:
        if r.get("extra"):
            zs.extend(r["extra"])
    if len(zs) >= 200:
        z = np.asarray(zs)
        n = len(z)
        zm = z.mean() * np.sqrt(n)
        zv = (np.mean(z ** 2) - 1) * np.sqrt(n / 2)
        ctx.mon("root_draw_moments")
        ctx.notes["root_draws"] = {"n": n, "z_mean": float(zm), "z_var": float(zv)}
        if not (abs(zm) <= 6 and abs(zv) <= 6):
            ctx.violation("root-draw-moments", f"standardised root draws: n={n}, z(mean)={zm:.1f}, z(var)={zv:.1f}")


def gen_cases(tier, seed):
    n = 300 if tier == "quick" else 25000
    return [{"idx": i, "seed": seed, "auto": i % 2, "cost": 1} for i in range(n)]
