"""C20 — optim_flat: documented stopping rule, restored optimum, fresh mini-batches."""

from __future__ import annotations

import itertools

import numpy as np

from vlib.common import CaseResult, liesel_call, off, rng_for

ID = "C20"
RULE = (
    "stopper: every loss history over a small exactly-representable alphabet up to a length bound x "
    "patience x atol x rtol x every index (enumerated); optim_flat: real optimisations of a regression "
    "model with an id-reporting Calc (batch membership observed through an ordered debug callback), "
    "n in 7..40 with batch sizes not dividing n, with/without validation model and history options. "
    "Also: two scalar parameters listed non-alphabetically; one Stopper object re-configured between settings / evaluated by hand before optim_flat. Round 5: stop_now / continue_ with plain Python-int indices. non-trivial = history where exactly one tolerance clause fires at an index > patience; "
    "optimisation with n mod b != 0 and >= 3 iterations; distinct by value hash"
)
REQUIRED = ["stop_early_rule", "stop_now_rule", "which_best_rule", "position_is_recorded_best",
            "best_is_argmin_of_window", "history_lengths", "state_consistent",
            "batches_partition", "batches_redrawn", "every_observation_used"]
ANCHORS = ["goose/optim.py:Stopper.stop_early", "goose/optim.py:Stopper.stop_now",
           "goose/optim.py:Stopper.which_best_in_recent_history", "goose/optim.py:optim_flat",
           "goose/optim.py:_generate_batch_indices"]
EXHAUSTIVE = True
EXHAUSTIVE_SCOPE = ("stopper rule: all loss histories of length<=6 (quick) / <=7 plus a 6-letter "
                    "alphabet (thorough) x patience{1..4} x atol{0,1/4,1/2} x rtol{0,1/2} x every index")
ASSUMPTIONS = [
    "at index i == patience the prose ('at least as many iterations as the patience') and the "
    "code ('i > patience') differ; either answer is accepted there",
    "patience <= max_iter (larger patience cannot be sliced and is outside the domain)",
]
WORKERS = 16
TIMEOUT = {"quick": 1500, "thorough": 10800}

PARAMS = ["slope", "intercept"]


def pos_vec(position):
    """[intercept, slope] as the coefficient vector of the design matrix [1, x]."""
    return np.array([float(np.asarray(position["intercept"])), float(np.asarray(position["slope"]))])


ALPHA5 = np.array([-1.0, -0.5, 0.0, 0.25, 1.0], np.float32)
ALPHA6 = np.array([-1.0, -0.5, 0.0, 0.25, 1.0, 2.0], np.float32)


# ---------------------------------------------------------------- stopper oracle
def oracle_stop_early(hist, i, p, atol, rtol):
    """Documented pseudo-code on the history up to and including i.
    returns (must_stop, free): free=True at i == p where prose and code disagree."""
    recent = hist[max(0, i - p + 1): i + 1]
    oldest = recent[0]
    best = np.min(recent)
    with np.errstate(all="ignore"):
        diff = np.float32(oldest - best)
        rel = np.float32(diff / np.abs(best))
    rule = bool(diff <= atol) or bool(rel <= rtol)
    if i < p:
        return False, False
    if i == p:
        return rule, True
    return rule, False


def clause_count(hist, i, p, atol, rtol):
    recent = hist[max(0, i - p + 1): i + 1]
    with np.errstate(all="ignore"):
        diff = np.float32(recent[0] - np.min(recent))
        rel = np.float32(diff / np.abs(np.min(recent)))
    return int(bool(diff <= atol)) + int(bool(rel <= rtol))


def case_stopper(case, res):
    import jax
    import jax.numpy as jnp
    from liesel.goose.optim import Stopper

    alpha = ALPHA5 if case["alpha"] == 5 else ALPHA6
    L = case["L"]
    p = case["p"]
    part, nparts = case["part"], case["nparts"]
    combos = np.array(list(itertools.product(range(len(alpha)), repeat=L)), np.int16)
    combos = combos[part::nparts]
    H = alpha[combos]  # [N, L]
    N = len(H)
    n_eval = 0
    # odd parts: ONE stopper object whose public fields are re-assigned between the settings (the rule must follow the
    # current fields); even parts: a fresh object per setting
    shared = Stopper(max_iter=L, patience=p, atol=0.0, rtol=0.0) if part % 2 else None
    for atol in (0.0, 0.25, 0.5):
        for rtol in (0.0, 0.5):
            for max_iter in (L, L + 3):
                if shared is not None:
                    st = shared
                    st.max_iter, st.atol, st.rtol = max_iter, atol, rtol
                else:
                    st = Stopper(max_iter=max_iter, patience=p, atol=atol, rtol=rtol)
                f_early = jax.jit(jax.vmap(lambda i, h: st.stop_early(i, h), in_axes=(None, 0)))
                f_now = jax.jit(jax.vmap(lambda i, h: st.stop_now(i, h), in_axes=(None, 0)))
                f_best = jax.jit(jax.vmap(lambda i, h: st.which_best_in_recent_history(i, h), in_axes=(None, 0)))
                for i in range(L):
                    got_e = np.asarray(f_early(jnp.asarray(i), jnp.asarray(H)))
                    got_n = np.asarray(f_now(jnp.asarray(i), jnp.asarray(H)))
                    # vectorised oracle
                    lo = max(0, i - p + 1)
                    recent = H[:, lo: i + 1]
                    best = recent.min(axis=1)
                    with np.errstate(all="ignore"):
                        diff = (recent[:, 0] - best).astype(np.float32)
                        rel = (diff / np.abs(best)).astype(np.float32)
                    rule = (diff <= np.float32(atol)) | (rel <= np.float32(rtol))
                    if i < p:
                        must = np.zeros(N, bool)
                        free = np.zeros(N, bool)
                    elif i == p:
                        must = rule
                        free = np.ones(N, bool)
                    else:
                        must = rule
                        free = np.zeros(N, bool)
                    bad = np.where((got_e != must) & ~free)[0]
                    res.mon("stop_early_rule", N)
                    for j in bad[:2]:
                        res.violation(
                            "stopper-rule",
                            f"stop_early(i={i}, hist={H[j].tolist()}) = {bool(got_e[j])}, documented rule gives "
                            f"{bool(must[j])} (patience={p}, atol={atol}, rtol={rtol})",
                            {"hist": H[j].tolist(), "i": i, "p": p, "atol": atol, "rtol": rtol})
                    # the same calls with a plain Python int index (the signature says `int | Array`), eagerly, on a few
                    # histories: stop_now and continue_ must say the same as with an array index, and be each other's negation
                    for j in range(0, N, max(1, N // 3)):
                        hj = jnp.asarray(H[j])
                        sn_i = bool(st.stop_now(int(i), hj))
                        co_i = bool(st.continue_(int(i), hj))
                        res.mon("stop_now_rule")
                        if sn_i != bool(got_n[j]) or co_i == sn_i:
                            res.violation("stop-now", f"Python-int index: stop_now(i={i}) = {sn_i}, continue_(i={i}) = {co_i}; with an "
                                          f"array index stop_now = {bool(got_n[j])} (hist={H[j].tolist()}, patience={p}, max_iter={max_iter}, "
                                          f"atol={atol}, rtol={rtol})", {"hist": H[j].tolist(), "i": i, "p": p, "max_iter": max_iter})
                            break
                    lim = i >= max_iter - 1
                    exp_now = got_e | lim  # stop_now = stop_early or limit (stop_early judged above)
                    res.mon("stop_now_rule", N)
                    bad = np.where(got_n != exp_now)[0]
                    for j in bad[:2]:
                        res.violation(
                            "stop-now",
                            f"stop_now(i={i}, hist={H[j].tolist()}, max_iter={max_iter}) = {bool(got_n[j])}, expected "
                            f"{bool(exp_now[j])}", {"hist": H[j].tolist(), "i": i, "p": p, "max_iter": max_iter})
                    if i >= p - 1 and atol == 0.0 and rtol == 0.0 and max_iter == L:
                        got_b = np.asarray(f_best(jnp.asarray(i), jnp.asarray(H)))
                        exp_b = i - p + 1 + np.argmin(H[:, i - p + 1: i + 1], axis=1)
                        res.mon("which_best_rule", N)
                        bad = np.where(got_b != exp_b)[0]
                        for j in bad[:2]:
                            res.violation("which-best",
                                          f"which_best(i={i}, hist={H[j].tolist()}, patience={p}) = {int(got_b[j])}, "
                                          f"expected {int(exp_b[j])}", {"hist": H[j].tolist(), "i": i, "p": p})
                    n_eval += N
                    if i > p:
                        one = ((diff <= np.float32(atol)).astype(int) + (rel <= np.float32(rtol)).astype(int)) == 1
                        for j in np.where(one)[0][:3]:
                            res.nontriv(("stop", H[j].tolist(), i, p, atol, rtol))
    res.evals = n_eval
    res.ev("stopper_evaluations", n_eval)
    res.sample = {"history": H[0].tolist(), "patience": p, "alphabet": alpha.tolist()}
    _ = oracle_stop_early, clause_count


# ---------------------------------------------------------------- optim_flat
def build_model(n, seed, tag, log, with_prior=True):
    import jax
    import jax.numpy as jnp
    import liesel.model as lsl
    import tensorflow_probability.substrates.jax.distributions as tfd

    rng = np.random.default_rng(seed)
    X = np.c_[np.ones(n), rng.normal(size=n)].astype(np.float32)
    y = (X @ np.array([0.5, 1.2]) + rng.normal(size=n)).astype(np.float32)
    # two scalar parameters, later listed as ["slope", "intercept"] (not alphabetical)
    slope = lsl.param(jnp.zeros(()), lsl.Dist(tfd.Normal, loc=0.0, scale=10.0), name="slope")
    intercept = lsl.param(jnp.zeros(()), lsl.Dist(tfd.Normal, loc=0.0, scale=10.0), name="intercept")
    coef = lsl.Var(lsl.Calc(lambda i_, s_: jnp.stack([i_, s_]), intercept, slope), name="coef")
    x = lsl.obs(X, name="x")
    ids = lsl.obs(jnp.arange(n), name="ids")

    def record(v):
        log.append((tag, tuple(int(i) for i in np.asarray(v))))

    def spy(i):
        jax.debug.callback(record, i, ordered=True)
        return jnp.zeros(())

    sp = lsl.Calc(spy, ids, _name="spy", update_on_init=False)
    mu = lsl.Var(lsl.Calc(lambda x, c, s: x @ c + s, x, coef, sp, update_on_init=False), name="mu")
    yv = lsl.obs(y, lsl.Dist(tfd.Normal, loc=mu, scale=1.0), name="y")
    return lsl.GraphBuilder().add(yv).build_model(), X, y


def case_optim(case, res):
    import jax.numpy as jnp
    import liesel.goose as gs
    import optax

    rng = rng_for(case["seed"], "optim", case["idx"])
    n = int(rng.integers(7, 41))
    mode = case["mode"]
    log: list = []
    model, X, y = build_model(n, int(rng.integers(1 << 30)), "train", log)
    kwargs = {}
    if mode == "batch":
        bs = [b for b in range(2, n) if n % b != 0]
        b = int(rng.choice(bs))
        r = n % b
        nb = n // b
        K = int(np.ceil(np.log(1e-12 / n) / np.log(r / n)))
        K = max(4, min(K, 60))
        max_iter = K + 2
        stopper = gs.Stopper(max_iter=max_iter, patience=int(rng.integers(2, 6)))
        kwargs = dict(batch_size=b, batch_seed=int(rng.integers(1, 10 ** 6)))
        val = None
    else:
        b = None
        max_iter = int(rng.integers(6, 60))
        p = int(rng.integers(1, min(8, max_iter) + 1))
        stopper = gs.Stopper(max_iter=max_iter, patience=p, atol=float(rng.choice([0.0, 1e-3, 0.05, 0.5])),
                             rtol=float(rng.choice([0.0, 0.0, 1e-3, 0.02])))
        val = None
        if mode == "validation":
            vlog: list = []
            val, _, _ = build_model(int(rng.integers(5, 30)), int(rng.integers(1 << 30)), "val", vlog)
        if rng.random() < 0.4:
            b = int(rng.integers(2, n))
            kwargs = dict(batch_size=b, batch_seed=int(rng.integers(1, 10 ** 6)))
    lr = float(rng.choice([0.3, 0.1, 0.02]))
    restore = bool(rng.random() < (0.5 if mode == "validation" else 0.7))
    prune = bool(rng.random() < 0.5)
    save_hist = True if restore else bool(rng.random() < 0.5)
    user_p = stopper.patience
    desc = {"n": n, "mode": mode, "batch_size": b, "max_iter": stopper.max_iter, "patience": user_p,
            "atol": stopper.atol, "rtol": stopper.rtol, "lr": lr, "restore_best": restore,
            "prune": prune, "save_position_history": save_hist}
    res.sample = desc
    state_before = {k: np.asarray(v.value) for k, v in model.state.items() if v.value is not None}
    if case["idx"] % 2:
        # the stopper object has been used before (evaluated by hand on a history of the same length)
        import jax.numpy as jnp

        _ = bool(stopper.stop_early(jnp.asarray(1), jnp.zeros(stopper.max_iter)))
        _ = bool(stopper.stop_now(jnp.asarray(1), jnp.zeros(stopper.max_iter)))
        desc["stopper_used_before"] = True
    log.clear()
    with liesel_call(res, "optim_flat", desc):
        out = gs.optim_flat(model, PARAMS, optimizer=optax.adam(lr), stopper=stopper,
                            model_validation=val, restore_best_position=restore,
                            prune_history=prune, save_position_history=save_hist,
                            progress_bar=False, **kwargs)
    if res.violations:
        return
    res.evals = 1
    it = int(out.iteration)
    ib = int(out.iteration_best)
    H = out.history
    lv = np.asarray(H["loss_validation"])
    lt = np.asarray(H["loss_train"])
    # --- history lengths / NaN padding
    res.mon("history_lengths")
    if prune:
        ok = lv.shape == (it + 1,) and lt.shape == (it + 1,) and not np.isnan(lv).any() and not np.isnan(lt).any()
    else:
        ok = (lv.shape == (stopper.max_iter,) and not np.isnan(lv[: it + 1]).any()
              and np.isnan(lv[it + 1:]).all() and np.isnan(lt[it + 1:]).all() and not np.isnan(lt[: it + 1]).any())
    if not ok:
        res.violation("history-length", f"history shapes {lv.shape}/{lt.shape}, iteration {it}, prune={prune}, "
                      f"nan pattern {np.isnan(lv).astype(int).tolist()}", desc)
    if save_hist:
        exp_len = it + 1 if prune else stopper.max_iter
        if set(H["position"]) != set(PARAMS):
            res.violation("history-length", f"position history has keys {sorted(H['position'])}, parameters are {PARAMS}", desc)
        for pk in PARAMS:
            ph = np.asarray(H["position"][pk])
            if ph.shape[0] != exp_len or np.isnan(ph[: it + 1]).any() or not np.isnan(ph[it + 1:]).all():
                res.violation("history-length", f"position history of {pk}: shape {ph.shape}, iteration {it}, prune={prune}", desc)
    else:
        if H["position"] is not None:
            res.violation("history-length", "position history present although not requested", desc)
    # --- stopping index agrees with the rule
    res.mon("stop_now_rule")
    eff_p = user_p if mode == "validation" else stopper.max_iter
    full = np.zeros(stopper.max_iter, np.float32)
    full[: it + 1] = lv[: it + 1]
    if it < stopper.max_iter - 1:
        # stopped early: the rule must hold at `it` (or it == patience, free) and must not have held before
        must, free = oracle_stop_early(full, it, eff_p, np.float32(stopper.atol), np.float32(stopper.rtol))
        if not must and not free:
            res.violation("stopped-without-rule", f"stopped at {it} < max_iter-1 but rule does not hold: {lv[: it + 1][-eff_p - 1:].tolist()}", desc)
    for j in range(it):
        must, free = oracle_stop_early(full, j, eff_p, np.float32(stopper.atol), np.float32(stopper.rtol))
        if must and not free:
            # borderline float comparisons (diff within 1 ulp of atol) are not judged
            recent = full[max(0, j - eff_p + 1): j + 1]
            d = float(recent[0] - recent.min())
            if abs(d - stopper.atol) > 1e-4 * max(1, abs(d)):
                res.violation("continued-despite-rule", f"rule held at {j} but optimisation went on to {it}", desc)
                break
    # --- best iteration and restored position
    if it >= user_p - 1:
        lo = it - user_p + 1
        res.mon("best_is_argmin_of_window")
        exp_ib = lo + int(np.argmin(lv[lo: it + 1]))
        if ib != exp_ib:
            res.violation("best-iteration", f"iteration_best={ib}, arg-min of validation loss over final window "
                          f"[{lo},{it}] is {exp_ib}: {lv[lo: it + 1].tolist()}", desc)
    if set(out.position) != set(PARAMS):
        res.violation("restored-position", f"returned position has keys {sorted(out.position)}, parameters are {PARAMS}", desc)
        return
    pos = pos_vec(out.position)
    if restore or save_hist:
        res.mon("position_is_recorded_best")
        at = ib if restore else it
        for pk in PARAMS:
            rec = np.asarray(H["position"][pk])[at]
            if not np.array_equal(np.asarray(out.position[pk]), rec):
                res.violation("restored-position" if restore else "last-position",
                              f"returned {pk} = {np.asarray(out.position[pk]).tolist()} != recorded {pk} at iteration "
                              f"{at} ({'best' if restore else 'last'}): {rec.tolist()}; full returned position "
                              f"{ {k: float(np.asarray(v)) for k, v in out.position.items()} }", desc)
                break
    # --- the validation loss recorded at the reported iteration belongs to the returned position
    if mode != "validation" and b is None and (restore or save_hist):
        at = ib if restore else it
        nlp = -float(np.sum(-0.5 * (y - X @ pos.astype(np.float64)) ** 2 - 0.5 * np.log(2 * np.pi))
                     + np.sum(-0.5 * (pos.astype(np.float64) / 10) ** 2 - np.log(10.0) - 0.5 * np.log(2 * np.pi)))
        res.mon("loss_at_reported_iteration_matches_position")
        if off(float(lt[at]), nlp, 2e-3 * (1 + abs(nlp))):
            res.violation("restored-position", f"training loss recorded at iteration {at} is {float(lt[at])}, the returned position has "
                          f"loss {nlp}", desc)
    # --- returned state consistent with returned position
    res.mon("state_consistent")
    st = out.model_state
    lp_expected = float(np.sum(-0.5 * (y - X @ pos.astype(np.float64)) ** 2 - 0.5 * np.log(2 * np.pi))
                        + np.sum(-0.5 * (pos.astype(np.float64) / 10) ** 2 - np.log(10.0) - 0.5 * np.log(2 * np.pi)))
    cv = np.array([float(st["intercept_value"].value), float(st["slope_value"].value)])
    mu = np.asarray(st["mu_value"].value)
    lp = float(st["_model_log_prob"].value)
    if mu.shape != (X @ pos).shape:
        res.violation("state-inconsistent", f"returned state holds a mean vector of shape {mu.shape}; the training data have "
                      f"{len(y)} observations (log_prob {lp} vs {lp_expected} for the training data)", desc)
    elif not np.array_equal(cv.astype(np.float32), pos.astype(np.float32)) or not np.allclose(mu, X @ pos, atol=1e-4) or off(lp, lp_expected, 1e-3 * (1 + abs(lp_expected))):
        res.violation("state-inconsistent", f"returned state: coef {cv.tolist()} vs position {pos.tolist()}, "
                      f"log_prob {lp} vs {lp_expected}", desc)
    ys = np.asarray(st["y_value"].value)
    if ys.shape != y.shape or not np.array_equal(ys, y):
        res.violation("state-inconsistent", "returned state does not hold the full data", desc)
    # user's model untouched
    after = {k: np.asarray(v.value) for k, v in model.state.items() if v.value is not None}
    for k in state_before:
        if not np.array_equal(state_before[k], after[k]):
            res.violation("model-mutated", f"optim_flat changed the user's model node {k}", desc)
            break
    # --- batches
    if b is not None:
        nb = n // b
        tr = [e[1] for e in log if e[0] == "train" and len(e[1]) == b]
        iters = [tr[k: k + nb] for k in range(0, len(tr) - nb + 1, nb)]
        res.ev("batches_observed", len(tr))
        res.ev("iterations_observed", len(iters))
        if len(tr) != nb * it:
            res.violation("batch-count", f"{len(tr)} batches observed for {it} iterations x {nb} batches", desc)
        for k, its in enumerate(iters):
            res.mon("batches_partition")
            flat = [i for bt in its for i in bt]
            if len(set(flat)) != nb * b or any(not (0 <= i < n) for i in flat):
                res.violation("batch-partition", f"iteration {k}: batches {its} are not disjoint subsets of range({n})", desc)
                break
        if len(iters) >= 3:
            res.mon("batches_redrawn")
            same = sum(1 for k in range(1, len(iters)) if iters[k] == iters[k - 1])
            distinct = len({tuple(x) for x in iters})
            res.ev("distinct_batchings", distinct)
            if same > 0:
                res.violation("batches-not-redrawn",
                              f"{same} of {len(iters) - 1} consecutive iterations used identical batches; "
                              f"{distinct} distinct batchings in {len(iters)} iterations (n={n}, b={b}), e.g. {iters[0]}", desc)
            if mode == "batch" and n % b != 0:
                res.mon("every_observation_used")
                used = {i for its in iters for bt in its for i in bt}
                missing = sorted(set(range(n)) - used)
                if missing:
                    res.violation("observation-never-used",
                                  f"observations {missing} never entered a batch in {len(iters)} iterations "
                                  f"(n={n}, b={b}; a fresh re-draw misses one with probability < 1e-12)", desc)
                res.nontriv(("optim", n, b, it))
    if mode != "batch":
        res.nontriv(("optim", n, mode, stopper.max_iter, user_p, it))
    _ = jnp


def gen_cases(tier, seed):
    cases = []
    q = tier == "quick"
    maxL = 6 if q else 7
    for L in range(1, maxL + 1):
        for p in (1, 2, 3, 4):
            if p > L:
                continue
            nparts = 1 if L < 6 else (4 if L == 6 else 16)
            for part in range(nparts):
                cases.append({"kind": "stopper", "alpha": 5, "L": L, "p": p, "part": part,
                              "nparts": nparts, "cost": 5 ** L / nparts / 2000 + 1})
    if not q:
        for p in (1, 2, 3, 4):
            for part in range(16):
                cases.append({"kind": "stopper", "alpha": 6, "L": 7, "p": p, "part": part, "nparts": 16, "cost": 20})
    n_opt = 24 if q else 1200
    for i in range(n_opt):
        mode = ["batch", "batch", "validation", "plain"][i % 4]
        cases.append({"kind": "optim", "idx": i, "mode": mode, "seed": seed, "cost": 12})
    return cases


def run_case(case):
    res = CaseResult(case)
    if case["kind"] == "stopper":
        case_stopper(case, res)
    else:
        case_optim(case, res)
    return res


def classify(v):
    return v["mech"]
