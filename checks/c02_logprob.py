"""C02 — model log-probability equals the joint log-density and decomposes as documented."""

from __future__ import annotations

import numpy as np

from vlib import statmodels as sm
from vlib.common import CaseResult, exc_mech, off, rng_for, struct_hash

ID = "C02"
RULE = (
    "generated hierarchical model programs (Normal/Gamma/InverseGamma/HalfNormal/Exponential/LogNormal/"
    "Beta/Poisson/Bernoulli/degenerate-MVN variables, weak intermediates as Calc or Var, Exp-transformed "
    "positive variables (explicit and auto_transform with the default bijector), weak variables with their own distribution, "
    "distributions without a variable, variables that are neither observed nor "
    "parameter, user-supplied scalar and array-valued log_lik/log_prior/log_prob nodes) and DistRegBuilder models (p-/np-smooths, "
    "full-rank and deficient penalties); each evaluated at build time and after random admissible "
    "assignments (auto-update on, off + full update, off + targeted update of the totals); each built twice with per_obs flipped on a random "
    "subset; float32 and x64. Also: rejected dist_node/value_node re-assignments between variables before the build; values from re-used in-place refilled NumPy buffers; variables flagged parameter AND observed; models rebuilt from popped nodes whose values changed while they belonged to no model. Round 5: update mode 'mixed' (auto-update off for the first assignments, on for the rest). non-trivial = >= 2 distribution nodes of different flag classes and one of "
    "{weak intermediate var, per_obs=False, transformed variable, dist without var}; distinct by program hash"
)
REQUIRED = ["log_prob_equals_joint_density", "log_lik_equals_observed_sum", "log_prior_equals_parameter_sum",
            "decomposition_adds_up", "per_obs_invariance", "user_node_forwarded", "distreg_models"]
ANCHORS = ["model/model.py:GraphBuilder._add_model_log_prob_node", "model/model.py:GraphBuilder._add_model_log_lik_node",
           "model/model.py:GraphBuilder._add_model_log_prior_node", "model/model.py:_reduced_sum",
           "model/distreg.py:DistRegBuilder.add_np_smooth", "model/distreg.py:DistRegBuilder.add_p_smooth"]
ASSUMPTIONS = ["values are drawn inside each family's support and away from its boundary",
               "float32 tolerance |d| <= 5e-4 + 2e-5*sum|terms|; x64 tolerance 1e-8*(1+sum|terms|)"]
WORKERS = 16
TIMEOUT = {"quick": 1500, "thorough": 10800}


def tol(x64, abs_terms, cond=0.0):
    """cond: sum of 1/min(p,1-p) over Bernoulli observations (rounding of p near 0/1 is
    amplified by that factor in log p / log(1-p); an input-conditioning effect, not liesel's)."""
    if x64:
        return 1e-8 * (1 + abs_terms) + 1e-15 * cond
    return 5e-4 + 2e-5 * abs_terms + 2.4e-7 * cond


def assign_all(b, desc, values, mode, buffers=None):
    """mode: 'auto' (auto-update on) | 'off' (off, then full update) | 'targeted' (off, then a targeted
    update of the three totals only) | 'mixed' (off for the first assignments, switched on for the rest)."""
    import jax.numpy as jnp

    m = b.model
    m.auto_update = mode == "auto"
    n_vars = sum(1 for it in desc["items"] if it["t"] == "var")
    seen = 0
    for it in desc["items"]:
        if it["t"] != "var":
            continue
        seen += 1
        if mode == "mixed" and seen == max(2, n_vars // 2 + 1):
            # auto-update was off for the first assignments and is switched on for the rest (no explicit update)
            m.auto_update = True
        v = np.asarray(values[it["name"]], np.float64)
        tgt = b.transformed[it["name"]] if it["name"] in b.transformed else b.objs[it["name"]]
        new = np.asarray(sm.to_unconstrained(sm.bij_kind(it), v) if it["name"] in b.transformed else v,
                         np.float64 if b.ft == jnp.float64 else np.float32)
        if buffers is not None:
            # the caller keeps one NumPy buffer per variable and refills it in place for every assignment
            buf = buffers.get(it["name"])
            if buf is None or buf.shape != new.shape:
                buf = buffers[it["name"]] = np.empty(new.shape, new.dtype)
            buf[...] = new
            tgt.value = buf
        else:
            tgt.value = jnp.asarray(new, b.ft)
    if mode == "off" or (mode == "mixed" and not m.auto_update):
        m.update()
    elif mode == "targeted":
        m.update("_model_log_prob", "_model_log_lik", "_model_log_prior")
    m.auto_update = True


def judge(res, b, desc, values, x64, what, w):
    o = sm.oracle(desc, values)
    m = b.model
    if o["min_p"] < (1e-12 if x64 else 1e-5):
        # a success probability that rounds to 0/1 in the working precision: log p is -inf by rounding of
        # the *input*; not judged
        res.skip("saturated Bernoulli probability")
        return {"log_prob": float(np.sum(m.log_prob)), "log_lik": float(np.sum(m.log_lik)), "log_prior": float(np.sum(m.log_prior))}
    t = tol(x64, o["abs_terms"], o["cond"])
    user = desc["user"]
    raw = {"log_prob": np.asarray(m.log_prob), "log_lik": np.asarray(m.log_lik), "log_prior": np.asarray(m.log_prior)}
    if desc["user"].get("log_lik") == "array":
        # array-valued user node: forwarded unchanged (same shape, same values)
        expa = sm.user_value("log_lik", values, "array")
        res.mon("user_node_forwarded")
        if raw["log_lik"].shape != expa.shape or not np.allclose(raw["log_lik"], expa, rtol=1e-5, atol=1e-6):
            res.violation("user-node-not-forwarded", f"{what}: array-valued user log_lik node of shape {expa.shape} was not forwarded "
                          f"unchanged: model.log_lik has shape {raw['log_lik'].shape}", w)
        raw["log_lik"] = np.asarray(np.sum(raw["log_lik"]))
    for k, v in raw.items():
        if v.shape != ():
            res.violation("total-not-scalar", f"{what}: model.{k} has shape {v.shape}, expected a scalar total", w)
            return {k2: float(np.sum(v2)) for k2, v2 in raw.items()}
    got = {k: float(v) for k, v in raw.items()}
    exp = dict(o)
    for k in ("log_lik", "log_prior", "log_prob"):
        if user.get(k):
            exp[k] = float(np.sum(sm.user_value(k, values, user.get(k))))
            res.mon("user_node_forwarded")
            if off(got[k], exp[k], t + 1e-5 * abs(exp[k])):
                res.violation("user-node-not-forwarded", f"{what}: user-supplied {k} node gives {exp[k]} but model.{k} = {got[k]}", w)
    for k, mon in (("log_prob", "log_prob_equals_joint_density"), ("log_lik", "log_lik_equals_observed_sum"),
                   ("log_prior", "log_prior_equals_parameter_sum")):
        if user.get(k):
            continue
        res.mon(mon)
        if not np.isfinite(got[k]) or abs(got[k] - exp[k]) > t:
            res.violation(k.replace("_", "-") + "-wrong", f"{what}: model.{k} = {got[k]!r}, joint density from the program = "
                          f"{exp[k]!r} (|diff| {abs(got[k] - exp[k]):.3g} > tol {t:.3g})", w)
    if o["all_classified"] and not user:
        res.mon("decomposition_adds_up")
        if off(got["log_prob"], got["log_lik"] + got["log_prior"], t):
            res.violation("decomposition", f"{what}: log_prob {got['log_prob']} != log_lik {got['log_lik']} + log_prior "
                          f"{got['log_prior']} although every distribution is observed xor parameter", w)
    return got


def case_program(case, res):
    x64 = bool(case.get("x64"))
    rng = rng_for(case["seed"], "c02", case["idx"])
    desc = sm.gen_model(rng)
    vals0 = sm.initial_values(desc, rng)
    w = {"items": [{k: v for k, v in it.items() if k not in ("extra",)} for it in desc["items"]][:12], "user": desc["user"], "x64": x64}
    # the default-bijector table used by the oracle must agree with TFP (trusted); otherwise skip
    import tensorflow_probability.substrates.jax.distributions as tfd
    for it in desc["items"]:
        if it.get("transform") == "auto":
            ex = {"Gamma": tfd.Gamma(1.0, 1.0), "InverseGamma": tfd.InverseGamma(1.0, 1.0), "HalfNormal": tfd.HalfNormal(1.0),
                  "Exponential": tfd.Exponential(1.0), "LogNormal": tfd.LogNormal(0.0, 1.0)}[it["fam"]]
            nm = ex.experimental_default_event_space_bijector().name.lower()
            if sm.DEFAULT_BIJECTOR[it["fam"]] != nm:
                res.skip("default bijector differs from the oracle's table")
                res.nontriv(("skip", case["idx"]))
                return
    # in a third of the cases the model is put together after rejected node re-assignments between its variables
    mistakes = []
    plain = [it["name"] for it in desc["items"] if it["t"] == "var" and not it.get("transform")]
    if case["idx"] % 3 == 0 and len(plain) >= 2:
        # (a variable whose assignment was rejected is not used as a source afterwards: liesel detaches the
        # target's own node from it before it rejects, so that a later assignment *of* that node is accepted, which
        # would be a different model and not a mistake)
        targets = set()
        for _ in range(int(rng.integers(1, 4))):
            a, c = (int(i) for i in rng.choice(len(plain), 2, replace=False))
            if plain[c] in targets or plain[a] in targets:
                continue
            targets.add(plain[a])
            mistakes.append((plain[a], plain[c], ["dist", "value"][int(rng.integers(2))]))
        w["rejected_assignments_before_build"] = mistakes
    try:
        b = sm.build(desc, x64=x64, initial=vals0, mistakes=mistakes)
    except sm.RejectedAssignmentChanged as exc:
        res.violation("changed-by-rejected-assignment", str(exc), w)
        return
    if mistakes:
        res.ev("rejected_node_assignments_before_build", b.n_rejected)
    judge(res, b, desc, vals0, x64, "at build", w)
    # flipped per_obs twin
    names = [it["name"] for it in desc["items"] if it["t"] in ("var", "freedist")]
    flip = {n for n in names if rng.random() < 0.5} or {names[0]}
    b2 = sm.build(desc, x64=x64, flip_per_obs=flip, initial=vals0)
    K = case["k"]
    # (float32 cases only: with x64 on, TFP treats the np.float64 *scalars* that NumPy arithmetic on 0-d buffers produces
    # as Python floats and computes with them in float32; a TFP conversion rule, nothing liesel decides)
    buffers = {} if case["idx"] % 2 == 1 and not x64 else None
    for j in range(K):
        vals = sm.initial_values(desc, rng)
        mode = ["auto", "off", "targeted", "mixed"][j % 4]
        assign_all(b, desc, vals, mode, buffers)
        if buffers is not None:
            res.ev("assignments_from_reused_buffers")
        g1 = judge(res, b, desc, vals, x64, f"after assignment #{j} (update mode {mode})", w)
        assign_all(b2, desc, vals, ["off", "targeted", "auto"][j % 3])
        g2 = {"log_prob": float(np.sum(b2.model.log_prob)), "log_lik": float(np.sum(b2.model.log_lik)),
              "log_prior": float(np.sum(b2.model.log_prior))}
        o = sm.oracle(desc, vals)
        if o["min_p"] < (1e-12 if x64 else 1e-5):
            continue
        res.mon("per_obs_invariance")
        for k in g1:
            if off(g1[k], g2[k], tol(x64, o["abs_terms"], o["cond"])):
                res.violation("per-obs-changes-total", f"{k} = {g1[k]} but {g2[k]} after flipping per_obs on {sorted(flip)}", w)
                break
        if len(res.violations) >= 3:
            break
    # the same variables taken out of the model, given new values while they belong to no model, and built again:
    # the totals of the new model are those at the current values
    if not desc["user"] and case["idx"] % 4 == 2 and not res.violations:
        import jax.numpy as jnp
        import liesel.model as lsl

        nodes_, vars_ = b.model.pop_nodes_and_vars()
        vals = sm.initial_values(desc, rng)
        for it in desc["items"]:
            if it["t"] != "var":
                continue
            v = np.asarray(vals[it["name"]], np.float64)
            if it["name"] in b.transformed:
                b.transformed[it["name"]].value = jnp.asarray(sm.to_unconstrained(sm.bij_kind(it), v), b.ft)
            else:
                b.objs[it["name"]].value = jnp.asarray(v, b.ft)
        b.model = lsl.GraphBuilder(to_float32=not x64).add(*nodes_.values(), *vars_.values()).build_model()
        res.mon("rebuilt_after_values_changed_outside_a_model")
        judge(res, b, desc, vals, x64, "model rebuilt from popped nodes whose values were changed outside any model", w)
    # shapes of stored log-densities follow per_obs
    for it in desc["items"]:
        if it["t"] == "var" and it["fam"] != "MVNDegenerate":
            v = b.objs[it["name"]]
            tgt = b.transformed.get(it["name"], v)
            lp = np.asarray(tgt.log_prob)
            if it["per_obs"] and lp.shape != tuple(it["shape"]) and not it.get("transform"):
                res.violation("per-obs-shape", f"{it['name']}: per_obs=True but stored log_prob has shape {lp.shape}", w)
            if not it["per_obs"] and lp.shape != ():
                res.violation("per-obs-shape", f"{it['name']}: per_obs=False but stored log_prob has shape {lp.shape}", w)
    roles = {it.get("role") for it in desc["items"] if it["t"] == "var"}
    feats = (any(it["t"] == "calc" and it["as_var"] for it in desc["items"])
             or any(it["t"] in ("var", "freedist") and not it["per_obs"] for it in desc["items"])
             or any(it.get("transform") for it in desc["items"]) or any(it["t"] == "freedist" for it in desc["items"]))
    if len(roles) >= 2 and feats:
        res.nontriv(struct_hash([desc["items"], desc["user"], x64]))
    res.sample = {"families": [(it["name"], it["fam"], it.get("role"), it.get("transform", False)) for it in desc["items"] if "fam" in it],
                  "user_nodes": desc["user"], "x64": x64}
    res.evals = 1 + K


def case_distreg(case, res):
    import jax.numpy as jnp
    import liesel.model as lsl
    import tensorflow_probability.substrates.jax.bijectors as tfb
    import tensorflow_probability.substrates.jax.distributions as tfd
    from scipy import stats

    rng = rng_for(case["seed"], "c02-dr", case["idx"])
    n = int(rng.integers(6, 15))
    y = np.round(rng.normal(size=n), 3).astype(np.float32)
    drb = lsl.DistRegBuilder().add_response(y, tfd.Normal)
    drb.add_predictor("loc", tfb.Identity).add_predictor("scale", tfb.Exp)
    spec = {"loc": [], "scale": []}
    for pred in ("loc", "scale"):
        for j in range(int(rng.integers(1, 3))):
            p = int(rng.integers(2, 6))
            X = np.round(rng.normal(size=(n, p)) * 0.5, 2).astype(np.float32)
            if rng.random() < 0.5:
                m_, s_ = float(rng.integers(-1, 2)), float(np.round(rng.uniform(0.5, 3), 2))
                drb.add_p_smooth(X, m_, s_, pred)
                spec[pred].append({"kind": "p", "X": X, "m": m_, "s": s_})
            else:
                if p >= 3 and rng.random() < 0.7:
                    K = sm.diff_penalty(p, int(rng.choice([1, 2])))
                else:
                    A = rng.normal(size=(p, p))
                    K = A @ A.T / p + np.eye(p) * 0.3
                a_, b_ = float(np.round(rng.uniform(0.5, 3), 2)), float(np.round(rng.uniform(0.01, 2), 3))
                drb.add_np_smooth(X, K.astype(np.float32), a_, b_, pred)
                spec[pred].append({"kind": "np", "X": X, "K": K.astype(np.float32).astype(np.float64), "a": a_, "b": b_,
                                   "rank": int(np.linalg.matrix_rank(K.astype(np.float32)))})
    model = drb.build_model()
    w = {"n": n, "smooths": {k: [(s["kind"], s["X"].shape[1], s.get("rank")) for s in v] for k, v in spec.items()}}
    groups = model.groups()
    for rd in range(case["k"]):
        model.auto_update = bool(rd % 2)
        vals = {}
        for pred in ("loc", "scale"):
            for j, s in enumerate(spec[pred]):
                gname = f"{pred}_{s['kind']}{sum(1 for q in spec[pred][:j] if q['kind'] == s['kind'])}"
                g = groups[gname]
                beta = np.round(rng.normal(size=s["X"].shape[1]) * 0.4, 3)
                g["beta"].value = jnp.asarray(beta, jnp.float32)
                vals[(pred, j, "beta")] = beta
                if s["kind"] == "np":
                    t2 = float(np.round(np.exp(rng.normal(0, 0.8)), 3))
                    g["tau2"].value = jnp.asarray(t2, jnp.float32)
                    vals[(pred, j, "tau2")] = t2
        model.update()
        model.auto_update = True
        lprior = 0.0
        absn = 0.0
        eta = {"loc": np.zeros(n), "scale": np.zeros(n)}
        for pred in ("loc", "scale"):
            for j, s in enumerate(spec[pred]):
                beta = vals[(pred, j, "beta")]
                eta[pred] = eta[pred] + s["X"].astype(np.float64) @ beta
                if s["kind"] == "p":
                    t = stats.norm.logpdf(beta, s["m"], s["s"])
                    lprior += t.sum()
                    absn += np.abs(t).sum()
                else:
                    t2 = vals[(pred, j, "tau2")]
                    t = sm.logpdf("MVNDegenerate", beta, {"loc": 0.0, "var": t2, "pen": s["K"], "rank": s["rank"]})
                    t_ig = stats.invgamma.logpdf(t2, s["a"], scale=s["b"])
                    lprior += t + t_ig
                    absn += abs(t) + abs(t_ig)
        tl = stats.norm.logpdf(y.astype(np.float64), eta["loc"], np.exp(eta["scale"]))
        ll = tl.sum()
        absn += np.abs(tl).sum()
        t = 5e-4 + 3e-5 * absn
        res.mon("distreg_models")
        got = (float(model.log_lik), float(model.log_prior), float(model.log_prob))
        exp = (ll, lprior, ll + lprior)
        for nm, g_, e_ in zip(("log_lik", "log_prior", "log_prob"), got, exp):
            if not np.isfinite(g_) or abs(g_ - e_) > t:
                res.violation("distreg-" + nm, f"DistRegBuilder model: {nm} = {g_}, density from the specification = {e_} "
                              f"(tol {t:.3g}); smooths {w['smooths']}", w)
    if any(s["kind"] == "np" and s["rank"] < s["X"].shape[1] for v in spec.values() for s in v):
        res.nontriv(("distreg", case["idx"], str(w["smooths"])))
    res.sample = w
    res.evals = case["k"]


def run_case(case):
    res = CaseResult(case)
    try:
        if case["kind"] == "prog":
            case_program(case, res)
        else:
            case_distreg(case, res)
    except Exception as exc:  # noqa: BLE001
        mech, text = exc_mech(exc)
        if mech is None:
            raise
        res.violation(mech, f"building/evaluating a generated model raised\n{text}", case)
    return res


def gen_cases(tier, seed):
    q = tier == "quick"
    cases = [{"kind": "prog", "idx": i, "seed": seed, "x64": bool(i % 3 == 0), "k": 5 if q else 10, "cost": 3}
             for i in range(150 if q else 5000)]
    cases += [{"kind": "distreg", "idx": i, "seed": seed, "k": 3 if q else 6, "cost": 4} for i in range(24 if q else 800)]
    return cases
