"""C08 — recorded chains hold exactly the per-iteration states, thinned as configured.

Oracle: a pure-Python simulation of the deterministic probe-kernel sequence over the schedule,
sliced by the documented thinning rule."""

from __future__ import annotations

import numpy as np

from vlib.common import CaseResult, liesel_call, rng_for
from vlib.enginelab import (
    all_keys,
    drive,
    gen_probe_case,
    kid,
    simulate,
    stored_times,
)
from vlib.probes import F_TIME, ProbeQG, divisors, total_time

ID = "C08"
RULE = (
    "random schedules with per-epoch thinning x chunk sizes x 1-3 chains x 1-3 deterministic probe "
    "kernels over keys of shapes (),(1,),(2,),(3,),(2,2) and float/int dtype x dict model or Liesel "
    "model with a tracked derived Calc x included/excluded key selections (builder and direct) x "
    "quantity generator x minimised infos; every configuration is run under a second chunk size and "
    "driving mode and compared bitwise. Also: keys listed as included and excluded at once; a decoy builder configured earlier in the process and in-place edits of the builder's lists. non-trivial = some epoch with thinning>1 and chunk not a "
    "multiple of it; distinct by (schedule, chunk, chains, kernels, model kind, selection)"
)
REQUIRED = ["positions_equal_simulation", "initial_values_at_index0", "infos_one_per_transition",
            "kernel_states_one_per_transition", "posterior_accessors", "tracked_keys_respected",
            "chunk_independent", "derived_quantity_after_all_kernels", "generated_quantities_thinned"]
ANCHORS = ["goose/chain.py:ListEpochChain.append", "goose/chain.py:EpochChainManager.combine_filtered",
           "goose/engine.py:Engine._sample_many", "goose/engine.py:SamplingResults.get_posterior_samples",
           "goose/engine.py:Engine._handle_inital_values_epoch"]
ASSUMPTIONS = ["a selection that excludes every key is outside the domain (documented default: "
               "an empty key list means 'track the kernels' keys')"]
WORKERS = 16
TIMEOUT = {"quick": 1500, "thorough": 10800}


def expected_tracked(case):
    sel = case.get("select")
    keys = all_keys(case)
    if case.get("liesel") and sel is None:
        return keys
    if sel is None:
        return keys
    return [k for k in keys + sel["included"] if k not in sel["excluded"]]


def expected_value(case, traj_c, t, key):
    if key == "derived":
        return np.float32(sum(float(np.sum(traj_c[t][k].astype(np.float64))) for k in sorted(case["shapes"])))
    if key == "z":
        return np.float32(7.0)
    if key == "chain":
        return None
    return traj_c[t][key]


def run_cfg(case, res, judge=True):
    qgs = [ProbeQG(all_keys(case)[0])] if case.get("qg") else []
    eng = None
    with liesel_call(res, "engine run", case):
        eng, kernels, states = drive(case, position_keys=case.get("select"),
                                     quantity_generators=qgs, minimize=case.get("minimize", False))
        results = eng.get_results()
    if eng is None:
        return None
    spec = case["spec"]
    C = case["chains"]
    T = total_time(spec)
    st = stored_times(spec)
    flat_times = [t for ep in st for t in ep]
    post_times = [t for ep, (ty, _, _) in zip(st[1:], spec) if ty == 4 for t in ep]
    pos = results.positions.combine_all().unwrap()
    pos = {k: np.asarray(v) for k, v in pos.items()}
    out = {"pos": pos}
    if not judge:
        return out
    traj = simulate(case)
    tracked = expected_tracked(case)
    res.mon("tracked_keys_respected")
    if set(pos) != set(tracked):
        res.violation("tracked-keys", f"tracked keys {sorted(pos)} but selection implies {sorted(tracked)} "
                      f"(selection {case.get('select')})", case)
    for k in pos:
        if k == "chain":
            continue
        res.mon("positions_equal_simulation")
        got = pos[k]
        if got.shape[1] != len(flat_times):
            res.violation("stored-count", f"key {k}: {got.shape[1]} stored samples, thinning rule gives "
                          f"{len(flat_times)} (schedule {spec}, chunk {case['chunk']})", case)
            continue
        for c in range(C):
            exp = np.stack([np.asarray(expected_value(case, traj[c], t, k)) for t in flat_times])
            if not np.array_equal(got[c], exp.astype(got.dtype)) or got[c].dtype != exp.dtype:
                j = int(np.argmax([not np.array_equal(got[c][i], exp[i]) for i in range(len(exp))]))
                mech = "initial-values" if j == 0 else ("derived-stale" if k == "derived" else "positions")
                res.violation(mech, f"key {k} chain {c}: stored sample #{j} = {got[c][j].tolist()} but the state "
                              f"after global iteration {flat_times[j]} is {exp[j].tolist()} "
                              f"(dtype {got.dtype} vs {exp.dtype}; schedule {spec}, chunk {case['chunk']}, "
                              f"mode {case['mode']})", case)
                break
        res.mon("initial_values_at_index0")
        if k == "derived":
            res.mon("derived_quantity_after_all_kernels")
    # per-epoch storage follows the thinning rule epoch by epoch
    for n in range(len(spec) + 1):
        ch = results.positions.get_specific_chain(n).get()
        cnt = 0 if ch.is_none() else int(np.asarray(next(iter(ch.unwrap().values()))).shape[1])
        if cnt != len(st[n]):
            res.violation("stored-count", f"epoch {n}: {cnt} samples stored, thinning rule gives {len(st[n])}", case)
    # transition infos: one per transition, in order, never thinned
    tis = results.transition_infos.combine_all().unwrap()
    for ki in range(len(case["kernels"])):
        ti = tis[kid(ki)]
        res.mon("infos_one_per_transition")
        ec = np.asarray(ti.error_code)
        if ec.shape != (C, T - 1):
            res.violation("infos-count", f"kernel {ki}: transition infos shape {ec.shape}, expected {(C, T - 1)}", case)
        elif not case.get("minimize"):
            times = np.asarray(ti.rec)[:, :, F_TIME]
            if not np.array_equal(times, np.tile(np.arange(1, T), (C, 1))):
                res.violation("infos-order", f"kernel {ki}: info time stamps {times[0].tolist()}", case)
        if case.get("minimize") and hasattr(ti, "rec"):
            res.violation("infos-not-minimised", "minimize_transition_infos requested but full info stored", case)
    # kernel states: one per transition (+ initial)
    ks = results.kernel_states
    if ks.is_some():
        kk = ks.unwrap().combine_all().unwrap()
        res.mon("kernel_states_one_per_transition")
        seqs = np.asarray(kk[0]["seq"])
        if seqs.shape != (C, T):
            res.violation("kernel-states-count", f"kernel state chain shape {seqs.shape}, expected {(C, T)}", case)
        else:
            # snapshot t holds the state *after* transition t: its newest log record is that transition
            from vlib.probes import F_KIND, KINDS

            for ki in range(len(case["kernels"])):
                il = np.asarray(kk[ki]["ilog"])   # [C, T, L, NF]
                sq = np.asarray(kk[ki]["seq"])
                for c in range(C):
                    last = il[c, np.arange(T), np.clip(sq[c] - 1, 0, il.shape[2] - 1)]
                    ok0 = int(last[0, F_KIND]) == KINDS["init"]
                    okt = np.all(np.isin(last[1:, F_KIND], [KINDS["adaptive"], KINDS["standard"]])) and \
                        np.array_equal(last[1:, F_TIME], np.arange(1, T))
                    if not (ok0 and okt):
                        res.violation("kernel-state-lags", f"kernel {ki} chain {c}: stored kernel state #t is not the state after "
                                      f"transition t (newest records: kinds {last[:6, F_KIND].tolist()} times {last[:6, F_TIME].tolist()})", case)
                        break
    # posterior accessors
    res.mon("posterior_accessors")
    if post_times:
        ps = {k: np.asarray(v) for k, v in results.get_posterior_samples().items()}
        for k in ps:
            if k == "chain":
                continue
            for c in range(C):
                exp = np.stack([np.asarray(expected_value(case, traj[c], t, k)) for t in post_times])
                if ps[k][c].shape != exp.shape or not np.array_equal(ps[k][c], exp.astype(ps[k].dtype)):
                    res.violation("posterior-accessor", f"get_posterior_samples()[{k}] chain {c} is not the "
                                  f"posterior-epoch part: shape {ps[k][c].shape} vs {exp.shape}", case)
                    break
        pti = results.get_posterior_transition_infos()
        npost = sum(d for ty, d, _ in spec if ty == 4)
        first_post = T - npost  # posterior epochs are last
        for ki in range(len(case["kernels"])):
            ec = np.asarray(pti[kid(ki)].error_code)
            if ec.shape != (C, npost):
                res.violation("posterior-accessor", f"posterior transition infos shape {ec.shape}, expected {(C, npost)}", case)
            elif not case.get("minimize"):
                times = np.asarray(pti[kid(ki)].rec)[:, :, F_TIME]
                if not np.array_equal(times[0], np.arange(first_post, T)):
                    res.violation("posterior-accessor", f"posterior transition infos cover times {times[0].tolist()}", case)
    else:
        try:
            results.get_posterior_samples()
            res.violation("posterior-accessor", "get_posterior_samples() returned although no posterior epoch exists", case)
        except RuntimeError:
            pass
    # generated quantities are thinned like positions and describe the same states
    if case.get("qg"):
        res.mon("generated_quantities_thinned")
        gq = results.generated_quantities.unwrap().combine_all().unwrap()["qg0"]
        v = np.asarray(gq.v)
        k0 = all_keys(case)[0]
        if v.shape[1] != len(flat_times):
            res.violation("quantities-count", f"{v.shape[1]} generated quantities stored, {len(flat_times)} positions", case)
        else:
            for c in range(C):
                exp = np.array([float(np.sum(traj[c][t][k0].astype(np.float64))) for t in flat_times], np.float32)
                if not np.array_equal(v[c], exp):
                    res.violation("quantities-values", f"generated quantity chain {c}: {v[c].tolist()} vs states {exp.tolist()}", case)
                    break
    return out


def run_case(case):
    res = CaseResult(case)
    res.evals = 1
    a = run_cfg(case, res)
    if a is None:
        return res
    spec = case["spec"]
    # same configuration, other chunk size / driving mode: bitwise equal
    other = dict(case)
    rng = rng_for(case["seed"], "c08-other", case["idx"])
    if case["via"] == "direct":
        g = int(np.gcd.reduce([d for _, d, _ in spec]))
        ds = [d for d in divisors(g) if d != case["chunk"]] or [case["chunk"]]
        other["chunk"] = int(rng.choice(ds))
    other["mode"] = str(rng.choice(["all", "append", "mixed"]))
    r2 = CaseResult(other)
    b = run_cfg(other, r2, judge=False)
    res.violations.extend(r2.violations)
    if b is not None:
        res.mon("chunk_independent")
        for k in a["pos"]:
            if k not in b["pos"] or not np.array_equal(a["pos"][k], b["pos"][k]):
                res.violation("chunk-dependent", f"stored chain of {k} differs between chunk {case['chunk']}/"
                              f"mode {case['mode']} and chunk {other['chunk']}/mode {other['mode']}", case)
                break
    if any(k > 1 and case["chunk"] % k != 0 for _, _, k in spec):
        res.nontriv(("c08", spec, case["chunk"], case["chains"], [b_["keys"] for b_ in case["kernels"]],
                     bool(case.get("liesel")), case.get("select")))
    res.ev("stored_samples", sum(len(e) for e in stored_times(spec)) * case["chains"])
    res.ev("transitions", (total_time(spec) - 1) * case["chains"])
    res.sample = {"schedule[type,dur,thin]": spec, "chunk": case["chunk"], "chains": case["chains"],
                  "kernels": case["kernels"], "shapes": case["shapes"], "dtypes": case["dtypes"],
                  "liesel": bool(case.get("liesel")), "select": case.get("select"),
                  "stored_global_times": stored_times(spec)}
    return res


def gen_cases(tier, seed):
    n = 90 if tier == "quick" else 1600
    cases = []
    for i in range(n):
        rng = rng_for(seed, "c08", i)
        c = gen_probe_case(rng, seed, i)
        c["liesel"] = bool(rng.random() < 0.3)
        c["qg"] = bool(rng.random() < 0.4)
        c["minimize"] = bool(rng.random() < 0.2)
        r = rng.random()
        keys = all_keys(c)
        if r < 0.5 or c["liesel"]:
            inc = [k for k in (["z"] + (["derived"] if c["liesel"] else [])) if rng.random() < 0.8]
            exc = [k for k in keys if rng.random() < 0.3]
            if exc and rng.random() < 0.5:
                inc = inc + [exc[0]]        # a key listed as additionally included AND excluded: exclusion wins
            if len(exc) == len(keys) and not inc:
                exc = exc[1:]
            if len([k for k in keys + inc if k not in exc]) == 0:
                exc = []
            c["select"] = {"included": inc, "excluded": exc}
        else:
            c["select"] = None
        c["cost"] = total_time(c["spec"]) / max(1, c["chunk"]) * (3 if c["liesel"] else 1)
        cases.append(c)
    return cases
