"""C07 — the engine drives every kernel through the documented life-cycle.

Probe kernels log every call they receive inside their kernel state; a trace-specification
checker generated from the schedule judges the per-chain, per-kernel event sequence."""

from __future__ import annotations

import numpy as np

from vlib.common import CaseResult, liesel_call, rng_for
from vlib.enginelab import drive, expected_trace, final_logs, gen_probe_case, kid
from vlib.probes import decode_log, hist_checksum_np, total_time

ID = "C07"
RULE = (
    "random valid schedules (1-6 epochs of all types, several/no posterior epochs, no warm-up, "
    "durations 1-12, thinning) x chunk sizes (divisors of the gcd) x 1-3 chains x 1-3 probe kernels "
    "with mixed needs_history x driving mode (all epochs up front / append+sample one at a time / "
    "mixed) x Engine built directly or through EngineBuilder. Also: explicit position_keys selections; rejected append_epoch calls between accepted ones; repeated epochs, optionally sharing one EpochConfig object; results read after every driven epoch. Round 5: probe kernels whose end_warmup reports a non-zero error code; an earlier engine built (and run) from the same builder. non-trivial = schedule with an "
    "adaptation and a non-adaptation epoch and chunk < some duration; distinct by (schedule, chunk, "
    "chains, kernels, mode)"
)
REQUIRED = ["trace_matches_spec", "end_warmup_once", "history_is_epoch_positions",
            "modes_same_trace", "snapshots_are_prefixes"]
ANCHORS = ["goose/engine.py:Engine.sample_next_epoch", "goose/engine.py:Engine._start_epoch",
           "goose/engine.py:Engine._end_warmup", "goose/engine.py:Engine._tune_kernels",
           "goose/engine.py:Engine.append_epoch", "goose/kernel_sequence.py:KernelSequence.transition",
           "goose/kernel.py:TransitionMixin.transition", "goose/kernel.py:TuningMixin.tune"]
ASSUMPTIONS = ["time fields of end_epoch/tune calls are recorded but only their epoch index/type is judged",
               "history is judged for kernels that ask for it (needs_history=True)"]
WORKERS = 16
TIMEOUT = {"quick": 1500, "thorough": 10800}


def fmt(e):
    return {k: v for k, v in e.items() if k not in ("key", "x2", "seq")}


def check_trace(res, case, ki, chain, events):
    """Automaton over one kernel's event list."""
    exp = expected_trace(case, ki)
    w = {"kernel": ki, "chain": chain}
    n_ew = sum(1 for e in events if e["kind"] == "end_warmup")
    exp_ew = 1 if any(t == 4 for t, _, _ in case["spec"]) else 0
    res.mon("end_warmup_once")
    if n_ew != exp_ew:
        res.violation(
            "end-warmup-count",
            f"kernel {ki} chain {chain}: end_warmup called {n_ew} times, expected {exp_ew} "
            f"(schedule {case['spec']})", w)
    res.mon("trace_matches_spec")
    for i, (g, e) in enumerate(zip(events, exp)):
        bad = None
        if g["kind"] != e["kind"]:
            bad = f"event #{i}: got {g['kind']}, expected {e['kind']}"
        else:
            for f in ("nth", "type", "time", "tie", "dur", "thin"):
                if f in e and g[f] != e[f]:
                    bad = f"event #{i} ({g['kind']}): field {f} = {g[f]}, expected {e[f]}"
                    break
        if bad:
            mech = "trace"
            if g["kind"] == "end_warmup" or e["kind"] == "end_warmup":
                mech = "end-warmup-position" if n_ew == exp_ew else "end-warmup-count"
            elif {g["kind"], e["kind"]} <= {"adaptive", "standard"}:
                mech = "adaptive-branch"
            elif g["kind"].startswith("tune") or e["kind"].startswith("tune"):
                mech = "tuning-call"
            elif g["kind"] == e["kind"] and g["kind"] in ("adaptive", "standard", "start"):
                mech = "time-fields"
            res.violation(mech, f"kernel {ki} chain {chain}: {bad}; got {fmt(g)} expected {e}; "
                          f"schedule {case['spec']} chunk {case['chunk']} mode {case['mode']}", w)
            return False
    if len(events) != len(exp):
        extra = [fmt(e) for e in events[len(exp):][:3]]
        missing = exp[len(events):][:3]
        mech = "trace-length"
        if any(e["kind"] == "end_warmup" for e in events[len(exp):]) or any(e["kind"] == "end_warmup" for e in missing):
            mech = "end-warmup-count"
        res.violation(mech, f"kernel {ki} chain {chain}: {len(events)} events, expected {len(exp)}; "
                      f"extra {extra} missing {missing}; schedule {case['spec']}", w)
        return False
    return True


def run_one(case, res, collect=None):
    eng = kernels = None
    with liesel_call(res, "engine run", case):
        eng, kernels, states = drive(case, position_keys=case.get("select"))
    if eng is None:
        return None
    results = eng.get_results()
    logs = final_logs(eng, kernels)
    C = case["chains"]
    decoded = []
    for ki, (ilog, seq) in enumerate(logs):
        per_chain = []
        for c in range(C):
            ev = decode_log(ilog[c], seq[c])
            if seq[c] > ilog.shape[1]:
                res.violation("log-overflow", f"kernel {ki} chain {c}: {int(seq[c])} events exceed log size "
                              f"{ilog.shape[1]} (more calls than the schedule allows)", case)
            per_chain.append(ev)
            check_trace(res, case, ki, c, ev)
        decoded.append(per_chain)
    # history handed to tune() = the epoch's recorded positions
    tun = results.tuning_infos.unwrap().get()
    n_adapt = sum(1 for t, _, _ in case["spec"] if t in (1, 2))
    if tun.is_some():
        tun = tun.unwrap()
        adapt_epochs = [n for n, (t, _, _) in enumerate(case["spec"], start=1) if t in (1, 2)]
        for ki, kb in enumerate(case["kernels"]):
            ti = tun[kid(ki)]
            hist = np.asarray(ti.hist)  # [C, n_tunings, 2]
            if hist.shape[1] != n_adapt:
                res.violation("tuning-call", f"kernel {ki}: {hist.shape[1]} tuning infos stored, "
                              f"{n_adapt} adaptation epochs", case)
                continue
            if not kb["needs_history"]:
                continue
            for j, nth in enumerate(adapt_epochs):
                pos = results.positions.get_specific_chain(nth).get()
                for c in range(C):
                    res.mon("history_is_epoch_positions")
                    if pos.is_none():
                        exp_n, exp_cs = -1, 0.0
                    else:
                        p = {k: np.asarray(v)[c] for k, v in pos.unwrap().items()}
                        exp_n, exp_cs = hist_checksum_np(p)
                    got_n, got_cs = int(hist[c, j, 0]), float(hist[c, j, 1])
                    if got_n != exp_n or abs(got_cs - exp_cs) > 0.5:
                        res.violation(
                            "history",
                            f"kernel {ki} chain {c} epoch {nth}: tune() received a history of length {got_n} "
                            f"(checksum {got_cs}); the epoch's recorded positions have length {exp_n} "
                            f"(checksum {exp_cs}); schedule {case['spec']}", case)
    elif n_adapt:
        res.violation("tuning-call", "no tuning infos stored although adaptation epochs exist", case)
    # stored kernel-state snapshots (one per transition) must be prefixes of the final log
    ksc = results.kernel_states
    if ksc.is_some():
        ks = ksc.unwrap().combine_all().unwrap()
        T = total_time(case["spec"])
        for ki in range(len(kernels)):
            snaps = np.asarray(ks[ki]["ilog"])  # [C, T, L, NF]
            seqs = np.asarray(ks[ki]["seq"])    # [C, T]
            res.mon("snapshots_are_prefixes")
            if snaps.shape[1] != T:
                res.violation("kernel-state-snapshots", f"kernel {ki}: {snaps.shape[1]} kernel-state snapshots "
                              f"for {T - 1} transitions + initial", case)
                continue
            fin, _ = logs[ki]
            for c in range(C):
                ok = True
                for t in range(T):
                    n = int(seqs[c, t])
                    if not np.array_equal(snaps[c, t, :n], fin[c, :n]):
                        ok = False
                        break
                    if t > 0 and int(seqs[c, t]) <= int(seqs[c, t - 1]):
                        ok = False
                        break
                if not ok:
                    res.violation("kernel-state-snapshots", f"kernel {ki} chain {c}: snapshot {t} is not a "
                                  "prefix of the final log / not growing", case)
    if collect is not None:
        pos = results.positions.combine_all().unwrap()
        # PRNG keys are not part of the trace: the engine derives them per chunk
        collect["logs"] = [[[(e["kind"], e["nth"], e["type"], e["time"], e["tie"], e["dur"], e["thin"], e["x1"])
                             for e in ch] for ch in per] for per in decoded]
        collect["pos"] = {k: np.asarray(v) for k, v in pos.items()}
    return decoded


def run_case(case):
    res = CaseResult(case)
    res.evals = 1
    col_a: dict = {}
    dec = run_one(case, res, col_a)
    if dec is None:
        return res
    spec = case["spec"]
    res.ev("epochs", len(spec))
    res.ev("transitions", (total_time(spec) - 1) * case["chains"] * len(case["kernels"]))
    res.ev("events_decoded", sum(len(ch) for per in dec for ch in per))
    # same trace under another driving mode (and, for direct engines, another chunk size)
    other = dict(case)
    modes = [m for m in ("all", "append", "mixed") if m != case["mode"]]
    rng = rng_for(case["seed"], "c07-other", case["idx"])
    other["mode"] = str(rng.choice(modes))
    if case["via"] == "direct":
        from vlib.probes import divisors

        g = int(np.gcd.reduce([d for _, d, _ in spec]))
        other["chunk"] = int(rng.choice(divisors(g)))
    col_b: dict = {}
    res2 = CaseResult(other)
    dec2 = run_one(other, res2, col_b)
    for v in res2.violations:
        res.violations.append(v)
    if dec2 is not None and col_a and col_b:
        res.mon("modes_same_trace")
        if col_a["logs"] != col_b["logs"]:
            res.violation("modes-differ", f"trace differs between mode={case['mode']}/chunk={case['chunk']} and "
                          f"mode={other['mode']}/chunk={other['chunk']} for schedule {spec}", case)
        else:
            for k in col_a["pos"]:
                if not np.array_equal(col_a["pos"][k], col_b["pos"][k]):
                    res.violation("modes-differ", f"stored positions of {k} differ between driving modes", case)
                    break
    types = {t for t, _, _ in spec}
    if (types & {1, 2}) and (types & {3, 4}) and any(case["chunk"] < d for _, d, _ in spec):
        res.nontriv(("c07", spec, case["chunk"], case["chains"], len(case["kernels"]), case["mode"], case["via"]))
    res.sample = {"schedule[type,dur,thin]": spec, "chunk": case["chunk"], "chains": case["chains"],
                  "kernels": case["kernels"], "mode": case["mode"], "via": case["via"],
                  "trace_kernel0_chain0": [e["kind"] for e in dec[0][0]][:40]}
    return res


def gen_cases(tier, seed):
    n = 96 if tier == "quick" else 2700
    cases = []
    for i in range(n):
        rng = rng_for(seed, "c07", i)
        c = gen_probe_case(rng, seed, i)
        c["cost"] = total_time(c["spec"]) / max(1, c["chunk"])
        if rng.random() < 0.3:
            # explicit selection of tracked keys that leaves some kernels' keys untracked
            from vlib.enginelab import all_keys
            ks_ = all_keys(c)
            exc = [k for k in ks_ if rng.random() < 0.4]
            if len(exc) == len(ks_):
                exc = exc[1:]
            c["select"] = {"included": ["z"] if rng.random() < 0.5 else [], "excluded": exc}
        c["bad_appends"] = bool(rng.random() < 0.4)
        cases.append(c)
    # hand-picked hostile schedules: several posterior epochs, posterior only, warm-up only
    extra = [
        [[1, 4, 1], [4, 4, 2], [4, 6, 1]],
        [[4, 3, 1], [4, 3, 3], [4, 2, 1]],
        [[1, 2, 1], [2, 6, 3], [3, 2, 2]],
        [[3, 4, 1], [4, 4, 4]],
        [[2, 4, 4], [1, 2, 1], [4, 2, 1], [4, 2, 2]],
    ]
    for j, spec in enumerate(extra):
        rng = rng_for(seed, "c07x", j)
        c = gen_probe_case(rng, seed, 10_000 + j)
        c["spec"] = spec
        g = int(np.gcd.reduce([d for _, d, _ in spec]))
        c["chunk"] = g if c["via"] == "builder" else 1
        c["split"] = min(c["split"], len(spec))
        cases.append(c)
    return cases
