"""C10 — reproducibility, distinct keys, chain independence, initial values honoured."""

from __future__ import annotations

import numpy as np

from vlib.common import CaseResult, liesel_call, rng_for
from vlib.enginelab import drive, final_logs, gen_probe_case
from vlib.probes import decode_log, gen_schedule, mk_epochs, total_time

ID = "C10"
RULE = (
    "paired engine runs: (a) identical configuration twice and int seed vs PRNGKey(seed) with real "
    "kernels (RW, IWLS, small NUTS) through EngineBuilder, all stored leaves compared bitwise; "
    "(b) probe kernels logging every PRNG key received by any call in any chain (all must be distinct); "
    "(c) per-chain initial states (direct Engine and builder multiple_chains=True) with one chain's "
    "initial value perturbed - the other chains must not change; (d) jitter functions supplied by the "
    "harness (key-ignoring shift; key-using, reporting (key,in,out) through a debug callback) for "
    "replicated and per-chain initial states; (e) the same EngineBuilder built twice; engine seed given as int, key and "
    "per-chain key array. Also: (f) the same run in child processes under PYTHONHASHSEED 1/2/3; (g) jitter set and reset; (h) NUTS/HMC with searched initial step size in the isolation runs. Round 5: (i) the caller keeps writing into the containers handed to set_initial_values. non-trivial = >=2 chains, >=2 kernels and chunk < some "
    "duration; distinct by configuration hash"
)
REQUIRED = ["identical_across_processes", "per_chain_keys_equal_split", "second_build_identical", "identical_runs_bitwise", "int_seed_equals_key", "all_keys_distinct",
            "other_chains_unaffected", "first_sample_is_initial_value", "first_sample_is_jittered_value",
            "jitter_keys_distinct", "multi_chain_initial_values"]
ANCHORS = ["goose/builder.py:EngineBuilder.build", "goose/builder.py:EngineBuilder.set_initial_values",
           "goose/engine.py:Engine._split_prng_key", "goose/kernel_sequence.py:KernelSequence.transition",
           "goose/kernel_sequence.py:KernelSequence.init_states"]
ASSUMPTIONS = ["jax.random.split yields distinct keys (trusted primitive)"]
WORKERS = 16
TIMEOUT = {"quick": 1800, "thorough": 10800}

SHAPES = {"a": (), "b": (2,), "c": (3,)}


def log_prob(s):
    import jax.numpy as jnp

    return -0.5 * (jnp.sum(s["a"] ** 2) + jnp.sum((s["b"] - 1.0) ** 2) + jnp.sum(s["c"] ** 2) * 2.0)


def leaves_equal(a, b):
    import jax

    la, ta = jax.tree_util.tree_flatten(a)
    lb, tb = jax.tree_util.tree_flatten(b)
    if ta != tb or len(la) != len(lb):
        return False, "tree structure differs"
    for i, (x, y) in enumerate(zip(la, lb)):
        x = np.asarray(x)
        y = np.asarray(y)
        if x.shape != y.shape or x.dtype != y.dtype or x.tobytes() != y.tobytes():
            return False, f"leaf {i} differs (shape {x.shape}/{y.shape})"
    return True, ""


def simple_tree(r):
    out = {"pos": r.positions.combine_all().unwrap(), "ti": r.transition_infos.combine_all().unwrap()}
    t = r.tuning_infos.unwrap().get()
    if t.is_some():
        out["tun"] = t.unwrap()
    if r.kernel_states.is_some():
        out["ks"] = r.kernel_states.unwrap().combine_all().unwrap()
    return out


def real_kernels(cfg):
    import liesel.goose as gs

    ks = [gs.RWKernel(["a"], initial_step_size=cfg["rw_step"]),
          gs.IWLSKernel(["b"], initial_step_size=cfg["iwls_step"])]
    if cfg["nuts"] and cfg.get("auto_step"):
        # default initial step size: searched from the chain's own initial position when the kernel state is initialised
        ks.append(gs.NUTSKernel(["c"], max_treedepth=3) if cfg["auto_step"] == "nuts" else
                  gs.HMCKernel(["c"], num_integration_steps=3))
    elif cfg["nuts"]:
        ks.append(gs.NUTSKernel(["c"], initial_step_size=0.3, max_treedepth=3))
    else:
        ks.append(gs.RWKernel(["c"], initial_step_size=0.5))
    return ks


def init_state(rng=None, offset=0.0):
    import jax.numpy as jnp

    return {"a": jnp.asarray(0.5 + offset, jnp.float32), "b": jnp.asarray([0.1, -0.2], jnp.float32) + offset,
            "c": jnp.asarray([1.0, 2.0, 3.0], jnp.float32) * 0.1 + offset}


def run_builder(cfg, seed, states=None, multi=False, jitter=None, show=False, second_build=False, engine_seed=None,
                jitter_reset=None):
    import liesel.goose as gs

    b = gs.EngineBuilder(seed=seed, num_chains=cfg["chains"])
    if engine_seed is not None:
        b.set_engine_seed(engine_seed)
    b.show_progress = False
    b.store_kernel_states = True
    b.set_model(gs.DictInterface(log_prob))
    given = states if (multi or states is not None) else init_state()
    reuse = isinstance(seed, int) and seed % 2 == 1 and not multi
    if reuse:
        # the caller's own containers: a dict of NumPy buffers that it goes on using after handing them over.
        # (Replicated path only: there the builder stacks per-chain copies when the values are set. With
        # multiple_chains=True the builder keeps the caller's container as it is, so the harness leaves it alone.)
        given = {k: np.array(v) for k, v in given.items()}
    if multi:
        b.set_initial_values(given, multiple_chains=True)
    else:
        b.set_initial_values(given)
    if reuse:
        for k in list(given):
            given[k][...] = 99.0
        given["a"] = np.asarray(-5.0, np.float32)
    for k in real_kernels(cfg):
        b.add_kernel(k)
    b.set_epochs(mk_epochs(cfg["spec"]))
    if jitter is not None:
        b.set_jitter_fns(jitter)
    if jitter_reset is not None:
        # jitter configured and then switched off again
        import jax

        b.set_jitter_fns({"a": lambda key, v: v + 5.0 + jax.random.normal(key, v.shape)})
        b.set_jitter_fns(jitter_reset[0])
    eng = b.build()
    eng.sample_all_epochs()
    if second_build:
        # the same builder, built again: must give an identical engine
        eng2 = b.build()
        eng2.sample_all_epochs()
        return eng.get_results(), eng2.get_results()
    return eng.get_results()


def case_repro(case, res):
    import jax

    cfg = case["cfg"]
    s = case["engine_seed"]
    with liesel_call(res, "builder run", case):
        r1 = simple_tree(run_builder(cfg, s))
        r2 = simple_tree(run_builder(cfg, s))
        r3 = simple_tree(run_builder(cfg, jax.random.PRNGKey(s)))
        r4 = simple_tree(run_builder(cfg, s + 1))
    if res.violations:
        return
    ok, why = leaves_equal(r1, r2)
    res.check(ok, "identical_runs_bitwise", "not-reproducible",
              f"two runs with identical seed/model/kernels/schedule differ: {why}; cfg {cfg}", case)
    ok, why = leaves_equal(r1, r3)
    res.check(ok, "int_seed_equals_key", "int-seed-vs-key",
              f"seed={s} and PRNGKey({s}) give different results: {why}", case)
    same, _ = leaves_equal(r1["pos"], r4["pos"])
    moved = any(np.any(np.asarray(v) != np.asarray(v)[:, :1]) for v in r1["pos"].values())
    if same and moved:
        res.violation("seed-ignored", f"seeds {s} and {s + 1} give identical chains", case)
    # engine seed given as int, as key, and as per-chain key array (the split the builder itself would make)
    with liesel_call(res, "set_engine_seed variants", case):
        k = jax.random.PRNGKey(s + 17)
        e1 = simple_tree(run_builder(cfg, s, engine_seed=s + 17))
        e2 = simple_tree(run_builder(cfg, s, engine_seed=k))
        e3 = simple_tree(run_builder(cfg, s, engine_seed=jax.random.split(k, cfg["chains"])))
        ok12, why12 = leaves_equal(e1, e2)
        ok23, why23 = leaves_equal(e2, e3)
        res.check(ok12, "int_seed_equals_key", "int-seed-vs-key", f"set_engine_seed({s + 17}) and set_engine_seed(PRNGKey) differ: {why12}", case)
        res.check(ok23, "per_chain_keys_equal_split", "per-chain-keys", "set_engine_seed(key) and set_engine_seed(split(key, chains)) "
                  f"give different results: {why23}", case)
    # chains must differ from each other (they get different keys)
    a = np.asarray(r1["pos"]["a"])
    if cfg["chains"] >= 2 and a.shape[1] > 3:
        for i in range(cfg["chains"]):
            for j in range(i + 1, cfg["chains"]):
                # (two chains that both rejected every proposal are identical by chance, not by shared keys: demand movement)
                if np.array_equal(a[i], a[j]) and np.any(a[i] != a[i][0]):
                    res.violation("chains-identical", f"chains {i} and {j} have identical (non-constant) trajectories", case)
                elif np.array_equal(a[i], a[j]):
                    res.skip("two chains that never moved")
    # jitter functions set and then reset (None or {}): exactly the run without jitter
    with liesel_call(res, "set_jitter_fns reset", case):
        import warnings

        with warnings.catch_warnings():
            warnings.simplefilter("ignore")
            r5 = simple_tree(run_builder(cfg, s, jitter_reset=[None if case["idx"] % 2 else {}]))
        ok, why = leaves_equal(r1["pos"], r5["pos"])
        res.check(ok, "jitter_reset_means_no_jitter", "jitter-not-reset",
                  f"set_jitter_fns(fns) followed by set_jitter_fns({'None' if case['idx'] % 2 else '{}'}) does not give the run "
                  f"without jitter: {why}; first sample of a: {np.asarray(r5['pos']['a'])[:, 0].tolist()}", case)
    # no jitter configured: first stored sample = supplied initial value
    st = init_state()
    for k in ("a", "b", "c"):
        for c in range(cfg["chains"]):
            res.mon("first_sample_is_initial_value")
            if not np.array_equal(np.asarray(r1["pos"][k])[c, 0], np.asarray(st[k])):
                res.violation("initial-value", f"first sample of {k} chain {c} = "
                              f"{np.asarray(r1['pos'][k])[c, 0].tolist()} != supplied {np.asarray(st[k]).tolist()}", case)
    g = int(np.gcd.reduce([d for _, d, _ in cfg["spec"]]))
    if cfg["chains"] >= 2 and any(g < d for _, d, _ in cfg["spec"]):
        res.nontriv(("repro", cfg, s))
    res.sample = {"kind": "repro", "cfg": cfg, "seed": s}


def case_keys(case, res):
    with liesel_call(res, "engine run", case):
        eng, kernels, states = drive(case)
    if res.violations:
        return
    logs = final_logs(eng, kernels)
    seen = {}
    n = 0
    for ki, (ilog, seq) in enumerate(logs):
        for c in range(case["chains"]):
            for e in decode_log(ilog[c], seq[c]):
                n += 1
                k = e["key"]
                if k in seen:
                    res.violation("key-reuse", f"PRNG key {k} handed out twice: {seen[k]} and "
                                  f"{(ki, c, e['kind'], e['time'])} (kernel, chain, call, time); "
                                  f"schedule {case['spec']} chunk {case['chunk']}", case)
                    res.mon("all_keys_distinct")
                    return
                seen[k] = (ki, c, e["kind"], e["time"])
    res.mon("all_keys_distinct")
    res.ev("keys_logged", n)
    if case["chains"] >= 2 and len(case["kernels"]) >= 2 and any(case["chunk"] < d for _, d, _ in case["spec"]):
        res.nontriv(("keys", case["spec"], case["chunk"], case["chains"], len(case["kernels"]), case["via"]))
    res.sample = {"kind": "keys", "schedule": case["spec"], "chunk": case["chunk"], "chains": case["chains"],
                  "kernels": len(case["kernels"]), "distinct_keys": len(seen)}


def stacked_states(cfg, perturb=None):
    import jax.numpy as jnp

    sts = []
    for c in range(cfg["chains"]):
        off = 0.05 * c
        if perturb is not None and c == perturb[0]:
            off += perturb[1]
        sts.append(init_state(offset=off))
    return {k: jnp.stack([s[k] for s in sts]) for k in sts[0]}


def run_direct(cfg, seed, states):
    import jax
    import liesel.goose as gs
    from liesel.goose.engine import Engine
    from liesel.goose.kernel_sequence import KernelSequence

    iface = gs.DictInterface(log_prob)
    ks = real_kernels(cfg)
    for i, k in enumerate(ks):
        k.set_model(iface)
        k.identifier = f"kernel_{i:02d}"
    g = int(np.gcd.reduce([d for _, d, _ in cfg["spec"]]))
    eng = Engine(seeds=jax.random.split(jax.random.PRNGKey(seed), cfg["chains"]), model_states=states,
                 kernel_sequence=KernelSequence(ks), epoch_configs=mk_epochs(cfg["spec"]),
                 jitted_sample_duration=cfg.get("chunk", g), model=iface, position_keys=None,
                 store_kernel_states=True, show_progress=False)
    eng.sample_all_epochs()
    return eng.get_results()


def case_isolation(case, res):
    cfg = case["cfg"]
    s = case["engine_seed"]
    j = case["perturb_chain"]
    base = stacked_states(cfg)
    pert = stacked_states(cfg, perturb=(j, case["delta"]))
    runs = {}
    with liesel_call(res, "direct engine with per-chain states", case):
        runs["direct"] = (simple_tree(run_direct(cfg, s, base)), simple_tree(run_direct(cfg, s, pert)))
    with liesel_call(res, "set_initial_values(multiple_chains=True)", case, mech_prefix="multi-init:"):
        runs["builder"] = (simple_tree(run_builder(cfg, s, states=base, multi=True)),
                           simple_tree(run_builder(cfg, s, states=pert, multi=True)))
        res.mon("multi_chain_initial_values")
    for how, (r0, r1) in runs.items():
        for k in ("a", "b", "c"):
            p0 = np.asarray(r0["pos"][k])
            p1 = np.asarray(r1["pos"][k])
            for c in range(cfg["chains"]):
                if c == j:
                    if np.array_equal(p0[c, 0], p1[c, 0]):
                        res.violation("initial-value", f"{how}: perturbed chain {c} starts at the unperturbed value", case)
                    continue
                res.mon("other_chains_unaffected")
                if p0[c].tobytes() != p1[c].tobytes():
                    res.violation("chain-coupling", f"{how}: trajectory of chain {c} ({k}) changed when only chain "
                                  f"{j}'s initial value changed", case)
            # per-chain initial values honoured
            for c in range(cfg["chains"]):
                res.mon("first_sample_is_initial_value")
                if not np.array_equal(p0[c, 0], np.asarray(base[k])[c]):
                    res.violation("initial-value", f"{how}: first sample of {k} chain {c} {p0[c, 0].tolist()} != "
                                  f"supplied {np.asarray(base[k])[c].tolist()}", case)
    if cfg["chains"] >= 2:
        res.nontriv(("iso", cfg, s, j))
    res.sample = {"kind": "isolation", "cfg": cfg, "perturbed_chain": j}


def case_jitter(case, res):
    import jax
    import jax.numpy as jnp

    cfg = case["cfg"]
    s = case["engine_seed"]
    multi = case["multi"]
    reports = []

    def shift(c):
        def f(key, v):
            return v + jnp.asarray(c, v.dtype)
        return f

    def noisy(name):
        def f(key, v):
            out = v + jax.random.normal(key, jnp.shape(v), jnp.asarray(v).dtype)
            jax.debug.callback(lambda k_, i_, o_: reports.append(
                (name, tuple(np.asarray(jax.random.key_data(k_) if not hasattr(k_, "dtype") or k_.dtype != np.uint32 else k_).tolist()),
                 np.asarray(i_).copy(), np.asarray(o_).copy())), key, v, out)
            return out
        return f

    jit_keys = case["jitter_keys"]
    kinds = case["jitter_kinds"]
    fns = {}
    for k, kind in zip(jit_keys, kinds):
        fns[k] = shift(0.25 * (1 + "abc".index(k))) if kind == "shift" else noisy(k)
    states = stacked_states(cfg) if multi else init_state()
    mech_prefix = "multi-init:" if multi else ""
    r = None
    with liesel_call(res, "builder with jitter", case, mech_prefix=mech_prefix):
        ra, rb = run_builder(cfg, s, states=states, multi=multi, jitter=fns, second_build=True)
        r = simple_tree(ra)
        r_again = simple_tree(rb)
        if multi:
            res.mon("multi_chain_initial_values")
    if r is None:
        return
    # a second build() of the same builder gives the same engine (same jittered start, same chains)
    ok, why = leaves_equal(r["pos"], r_again["pos"])
    res.check(ok, "second_build_identical", "second-build-differs",
              f"building the same EngineBuilder twice gives different chains: {why}; first samples "
              f"{ {k: np.asarray(v)[:, 0].tolist() for k, v in r['pos'].items()} } vs "
              f"{ {k: np.asarray(v)[:, 0].tolist() for k, v in r_again['pos'].items()} }", case)
    reports_first = list(reports[: len(reports) // 2]) if reports else []
    if reports:
        del reports[len(reports) // 2:]
    C = cfg["chains"]
    for k in ("a", "b", "c"):
        first = np.asarray(r["pos"][k])[:, 0]
        for c in range(C):
            sup = np.asarray(states[k])[c] if multi else np.asarray(states[k])
            if k not in fns:
                res.mon("first_sample_is_initial_value")
                if not np.array_equal(first[c], sup):
                    res.violation("initial-value", f"{k} chain {c}: no jitter function, first sample "
                                  f"{first[c].tolist()} != supplied {sup.tolist()}", case)
            elif kinds[jit_keys.index(k)] == "shift":
                res.mon("first_sample_is_jittered_value")
                exp = sup + np.float32(0.25 * (1 + "abc".index(k)))
                if not np.array_equal(first[c], exp.astype(np.float32)):
                    res.violation("jitter-not-applied", f"{k} chain {c}: first sample {first[c].tolist()} != "
                                  f"supplied+shift {exp.tolist()}", case)
            else:
                res.mon("first_sample_is_jittered_value")
                cands = [rp for rp in reports if rp[0] == k and np.array_equal(rp[2], sup)]
                if not any(np.array_equal(rp[3], first[c]) for rp in cands):
                    res.violation("jitter-not-applied", f"{k} chain {c}: first sample {first[c].tolist()} is not the "
                                  f"output of the jitter function on the supplied value {sup.tolist()} "
                                  f"({len(cands)} calls saw that input)", case)
    noisy_keys = [k for k, kind in zip(jit_keys, kinds) if kind == "noisy"]
    if noisy_keys:
        res.mon("jitter_keys_distinct")
        ks = [rp[1] for rp in reports]
        if len(reports) != C * len(noisy_keys):
            res.violation("jitter-calls", f"{len(reports)} jitter calls observed, expected {C * len(noisy_keys)}", case)
        if len(set(ks)) != len(ks):
            res.violation("jitter-key-shared", f"jitter keys are not distinct per chain and position key: {ks}", case)
        # different chains must get different noise
        for k in noisy_keys:
            outs = [rp[3] - rp[2] for rp in reports if rp[0] == k]
            for i in range(len(outs)):
                for j2 in range(i + 1, len(outs)):
                    if np.array_equal(outs[i], outs[j2]):
                        res.violation("jitter-key-shared", f"two chains received identical jitter noise for {k}", case)
    if C >= 2:
        res.nontriv(("jit", cfg, s, multi, tuple(jit_keys), tuple(kinds)))
    res.sample = {"kind": "jitter", "cfg": cfg, "multi_chain_states": multi, "jitter": dict(zip(jit_keys, kinds)),
                  "reported_calls": len(reports)}


def case_hashseed(case, res):
    """Same configuration in two fresh processes that differ only in PYTHONHASHSEED."""
    import json
    import os
    import subprocess
    import sys

    outs = []
    for hs in case["hashseeds"]:
        env = dict(os.environ, PYTHONHASHSEED=str(hs))
        r = subprocess.run([sys.executable, "-m", "vlib.c10_child", json.dumps(case["cfg"])], capture_output=True, text=True,
                           env=env, timeout=600)
        line = [ln for ln in r.stdout.splitlines() if ln.startswith("RESULT ")]
        if r.returncode != 0 or not line:
            if "liesel" in r.stderr and "Traceback" in r.stderr:
                res.violation("child-run-raised", f"run with PYTHONHASHSEED={hs} raised: {r.stderr[-800:]}", case)
                return
            raise RuntimeError(f"child failed: {r.stderr[-1500:]}")
        outs.append(json.loads(line[0][7:]))
    res.mon("identical_across_processes")
    if any(o["sha1"] != outs[0]["sha1"] for o in outs[1:]):
        res.violation("not-reproducible-across-processes",
                      f"identical seed/model/kernels/schedule give different results in processes with PYTHONHASHSEED "
                      f"{case['hashseeds']}: first samples {[o['first'] for o in outs]}", case)
    res.nontriv(("hashseed", str(case["cfg"])))
    res.sample = {"kind": "hashseed", "cfg": case["cfg"], "hashseeds": case["hashseeds"]}


def gen_cfg(rng, nuts_ok=True):
    spec = gen_schedule(rng, max_epochs=4, max_dur=8)
    return {"spec": spec, "chains": int(rng.integers(1, 5)), "rw_step": float(rng.choice([0.3, 1.0, 2.5])),
            "iwls_step": float(rng.choice([0.5, 1.0])), "nuts": bool(nuts_ok and rng.random() < 0.25)}


def gen_cases(tier, seed):
    q = tier == "quick"
    cases = []
    for i in range(14 if q else 100):
        rng = rng_for(seed, "c10-repro", i)
        cases.append({"kind": "repro", "idx": i, "cfg": gen_cfg(rng), "engine_seed": int(rng.integers(0, 2 ** 30)), "cost": 8})
    for i in range(40 if q else 400):
        rng = rng_for(seed, "c10-keys", i)
        c = gen_probe_case(rng, seed, i)
        c["kind"] = "keys"
        c["cost"] = 2
        cases.append(c)
    for i in range(10 if q else 80):
        rng = rng_for(seed, "c10-iso", i)
        cfg = gen_cfg(rng, nuts_ok=(i % 2 == 0))
        cfg["chains"] = int(rng.integers(2, 5))
        if i % 2 == 0:
            cfg["nuts"] = True
            cfg["auto_step"] = ["nuts", "hmc"][(i // 2) % 2]
        cases.append({"kind": "isolation", "idx": i, "cfg": cfg, "engine_seed": int(rng.integers(0, 2 ** 30)),
                      "perturb_chain": int(rng.integers(cfg["chains"])), "delta": float(rng.choice([0.5, -1.0, 3.0])), "cost": 10})
    for i in range(12 if q else 100):
        rng = rng_for(seed, "c10-jit", i)
        cfg = gen_cfg(rng, nuts_ok=False)
        cfg["chains"] = int(rng.integers(2, 5))
        nk = int(rng.integers(1, 4))
        jk = [str(x) for x in rng.choice(["a", "b", "c"], size=nk, replace=False)]
        kinds = [str(rng.choice(["shift", "noisy"])) for _ in jk]
        cases.append({"kind": "jitter", "idx": i, "cfg": cfg, "engine_seed": int(rng.integers(0, 2 ** 30)),
                      "multi": bool(i % 2), "jitter_keys": jk, "jitter_kinds": kinds, "cost": 6})
    for i in range(3 if q else 20):
        rng = rng_for(seed, "c10-hash", i)
        keys = ["alpha", "zeta", "mu", "beta"]
        rng.shuffle(keys)
        cases.append({"kind": "hashseed", "idx": 90000 + i, "hashseeds": [1, 2, 3],
                      "cfg": {"seed": int(rng.integers(2 ** 30)), "chains": 2, "kernel_keys": keys[: int(rng.integers(2, 5))],
                              "jitter_keys": keys[: int(rng.integers(2, 5))], "spec": [[3, 4, 1], [4, 4, 1]]}, "cost": 12})
    return cases


def run_case(case):
    res = CaseResult(case)
    res.evals = 1
    {"repro": case_repro, "keys": case_keys, "isolation": case_isolation, "jitter": case_jitter,
     "hashseed": case_hashseed}[case["kind"]](case, res)
    return res


def classify(v):
    m = v["mech"]
    if m.startswith("multi-init:"):
        return "multi-chain-initial-values-raise"
    return m
