"""C09 — kernels compose blockwise and keep the model state coherent.

Real kernels are wrapped in recording wrappers (fingerprints of every strong value at entry and exit
of each transition, carried in the transition info); all non-transient node values are tracked and
every stored iteration is recomputed off-line from its strong values."""

from __future__ import annotations

from dataclasses import dataclass
from typing import Any

import numpy as np

from vlib.common import CaseResult, exc_mech, rng_for
from vlib.probes import mk_epochs

ID = "C09"
RULE = (
    "real kernels (RW, MH, IWLS, HMC, NUTS, user Gibbs, finite-discrete Gibbs, tau2 Gibbs) in random orders over "
    "disjoint blocks of a Liesel model (regression coefficients, Exp-transformed variance, degenerate-MVN smooth with "
    "its tau2, discrete indicator; weak intermediates; derived nodes that feed no distribution; optionally a position key "
    "that collides with another variable's name; user kernel identifiers in non-alphabetical order) and of a dict model; step sizes giving acceptances and "
    "rejections; adaptation, burn-in and posterior epochs; 2 chains. Also: kernel objects re-used from another model via set_model; engines put together by hand from KernelSequence(list) whose list the caller keeps modifying; eager kernel-by-kernel transitions with rejected interface calls in between and tau2 started from an integer literal. Round 5: the deprecated lsl.GooseModel interface on a model with auto-update off; tau2 kernel re-run with the same key on a state with another prior scale. non-trivial = >= 2 kernels and every MH-type "
    "kernel both accepted and rejected; distinct by (kernel order, kinds, step sizes)"
)
REQUIRED = ["kernel_starts_from_predecessor_output", "iteration_starts_from_previous_output", "only_own_keys_change",
            "derived_quantities_match_recomputation", "stored_log_prob_matches_recomputation", "dict_model_threading"]
ANCHORS = ["goose/kernel_sequence.py:KernelSequence.transition", "goose/interface.py:LieselInterface.update_state",
           "goose/gibbs.py:GibbsKernel.transition", "goose/mh.py:mh_step", "goose/nuts.py:NUTSKernel._standard_transition",
           "goose/hmc.py:HMCKernel._standard_transition", "goose/iwls.py:IWLSKernel._standard_transition"]
ASSUMPTIONS = ["float32 recomputation tolerance atol 2e-5 + rtol 2e-5 (x (1+|value|))"]
WORKERS = 16
TIMEOUT = {"quick": 1500, "thorough": 10800}

_REC = None


def same_within(got, exp, tol):
    """elementwise: equal (incl. equal infinities), both NaN, or within tol - a NaN/inf on one side only is a difference"""
    with np.errstate(invalid="ignore"):
        return (got == exp) | (np.isnan(got) & np.isnan(exp)) | (np.abs(got - exp) <= tol)


def rec_classes():
    global _REC
    if _REC is None:
        from liesel.goose.pytree import register_dataclass_as_pytree

        @register_dataclass_as_pytree
        @dataclass
        class RecInfo:
            inner: Any
            entry: Any
            exit: Any

            @property
            def error_code(self):
                return self.inner.error_code

            @property
            def acceptance_prob(self):
                return self.inner.acceptance_prob

            @property
            def position_moved(self):
                return self.inner.position_moved

            def minimize(self):
                return self.inner.minimize()

        _REC = RecInfo
    return _REC


class RecordingWrapper:
    """Delegates to a real kernel; adds fingerprints of all strong values at entry/exit to the info."""

    def __init__(self, kernel, all_keys):
        self._k = kernel
        self._all = list(all_keys)

    def __getattr__(self, name):
        return getattr(self._k, name)

    @property
    def identifier(self):
        return self._k.identifier

    @identifier.setter
    def identifier(self, v):
        self._k.identifier = v

    def _fp(self, state):
        import jax.numpy as jnp

        pos = self._k.model.extract_position(self._all, state)
        out = []
        for k in self._all:
            x = jnp.ravel(jnp.asarray(pos[k]).astype(jnp.float32))
            w = jnp.arange(1, x.size + 1, dtype=jnp.float32)
            out.append(jnp.stack([jnp.sum(x), jnp.sum(x * w), jnp.sum(x * x)]))
        return jnp.stack(out)

    def transition(self, prng_key, kernel_state, model_state, epoch):
        from liesel.goose.kernel import TransitionOutcome

        entry = self._fp(model_state)
        out = self._k.transition(prng_key, kernel_state, model_state, epoch)
        exit_ = self._fp(out.model_state)
        return TransitionOutcome(rec_classes()(out.info, entry, exit_), out.kernel_state, out.model_state)


def diff_penalty(m, order=1):
    D = np.diff(np.eye(m), n=order, axis=0)
    return D.T @ D


def build_model(rng, collide=False, alt=False, int_init=False):
    import jax.numpy as jnp
    import liesel.model as lsl
    import tensorflow_probability.substrates.jax.bijectors as tfb
    import tensorflow_probability.substrates.jax.distributions as tfd
    from liesel.distributions import MultivariateNormalDegenerate

    n, p, q = 14, 3, 4
    X = rng.normal(size=(n, p)).astype(np.float32)
    Z = rng.normal(size=(n, q)).astype(np.float32) * 0.5
    y = (X @ np.array([0.5, -1.0, 0.3]) + rng.normal(size=n)).astype(np.float32)
    beta = lsl.param(jnp.zeros(p, jnp.float32), lsl.Dist(tfd.Normal, loc=0.0, scale=5.0), name="beta")
    sigma2 = lsl.param(jnp.asarray(1.0, jnp.float32), lsl.Dist(tfd.InverseGamma, concentration=2.0, scale=1.0), name="sigma2")
    sigma2.transform(tfb.Exp())
    K = diff_penalty(q).astype(np.float32)
    K_var = lsl.Var(jnp.asarray(K), name="K")
    a_var = lsl.Var(jnp.asarray(1.0, jnp.float32), name="a")
    b_var = lsl.Var(jnp.asarray(0.5, jnp.float32), name="b")
    rank_var = lsl.Var(int(np.linalg.matrix_rank(K)), name="rank")
    # int_init: the user wrote `lsl.param(1, ...)` (an integer literal as starting value)
    tau2 = lsl.param(1 if int_init else jnp.asarray(1.0, jnp.float32),
                     lsl.Dist(tfd.InverseGamma, concentration=a_var, scale=b_var), name="tau2")
    b2 = lsl.param(jnp.zeros(q, jnp.float32),
                   lsl.Dist(MultivariateNormalDegenerate.from_penalty, loc=0.0, var=tau2, pen=K_var, rank=rank_var), name="b2")
    grp = lsl.Group("smooth", beta=b2, tau2=tau2, rank=rank_var, K=K_var, a=a_var, b=b_var)
    outcomes = lsl.Var(jnp.asarray([0.0, 1.0, 2.0]), name="outcomes")
    kv = lsl.Var(jnp.asarray(0.0), lsl.Dist(tfd.FiniteDiscrete, outcomes=outcomes, probs=jnp.asarray([0.3, 0.5, 0.2])), name="k")
    kv.parameter = True
    Xv = lsl.obs(jnp.asarray(X), name="X")
    Zv = lsl.obs(jnp.asarray(Z), name="Z")
    cs, cp = (0.9, 3.0) if alt else (0.5, 2.0)     # alt: same names and shapes, other functions
    shift = lsl.Calc(lambda k: cs * k, kv, _name="shift")
    mu = lsl.Var(lsl.Calc(lambda X, b, Z, b2, s: X @ b + Z @ b2 + s, Xv, beta, Zv, b2, shift), name="mu")
    scale = lsl.Calc(jnp.sqrt, sigma2, _name="scale")
    yv = lsl.obs(jnp.asarray(y), lsl.Dist(tfd.Normal, loc=mu, scale=scale), name="y")
    # derived quantities that depend on sampled parameters but feed no distribution (predictions, summaries)
    pred = lsl.Var(lsl.Calc(lambda b, s, b2: jnp.sum(b) * cp + s + jnp.sum(b2 ** 2), beta, sigma2, b2), name="pred")
    ksq = lsl.Calc(lambda k, t: k ** 2 + jnp.log(t), kv, tau2, _name="k_sq_plus_log_tau2")
    extra = []
    if collide:
        # an unrelated strong variable whose NAME equals the value-node name of `beta` ("beta_value"): position keys
        # that address the node `beta_value` then collide with this variable's name
        other = lsl.Var(jnp.asarray([9.0, 9.0, 9.0], jnp.float32), name="beta_value")
        extra.append(other)
    model = lsl.GraphBuilder().add(yv, pred, ksq, *extra).add_groups(grp).build_model()
    return model, grp


def make_kernels(rng, model, grp, cfg):
    import jax
    import jax.numpy as jnp
    import liesel.goose as gs
    import liesel.model as lsl
    from liesel.model.goose import finite_discrete_gibbs_kernel

    ks = []
    kb = cfg["beta"]
    if kb == "iwls":
        ks.append(("beta", gs.IWLSKernel(["beta"], initial_step_size=cfg["step_beta"])))
    elif kb == "nuts":
        ks.append(("beta", gs.NUTSKernel(["beta"], initial_step_size=0.15, max_treedepth=3)))
    elif kb == "hmc":
        ks.append(("beta", gs.HMCKernel(["beta"], initial_step_size=0.1, num_integration_steps=3)))
    else:
        ks.append(("beta", gs.RWKernel(["beta"], initial_step_size=cfg["step_beta"] * 0.4)))
    kk = cfg["sigma2"]
    if kk == "rw":
        ks.append(("sigma2_transformed", gs.RWKernel(["sigma2_transformed"], initial_step_size=cfg["step_s"])))
    elif kk == "mh":
        def prop(key, state, step):
            x = state["sigma2_transformed_value"].value
            return gs.MHProposal({"sigma2_transformed": x + step * jax.random.normal(key, jnp.shape(x))}, 0.0)
        ks.append(("sigma2_transformed", gs.MHKernel(["sigma2_transformed"], prop, initial_step_size=cfg["step_s"])))
    else:
        ks.append(("sigma2_transformed", gs.NUTSKernel(["sigma2_transformed"], initial_step_size=0.3, max_treedepth=2)))
    ks.append(("tau2", lsl.tau2_gibbs_kernel(grp)))
    if cfg["b2"] == "iwls":
        ks.append(("b2", gs.IWLSKernel(["b2"], initial_step_size=cfg["step_b2"])))
    elif cfg["b2"] == "gibbs_user":
        # a user Gibbs kernel that draws b2 from a random walk around the current value (any transition_fn is allowed)
        def tfn(key, state):
            x = state["b2_value"].value
            return {"b2": x + 0.1 * jax.random.normal(key, jnp.shape(x))}
        ks.append(("b2", gs.GibbsKernel(["b2"], tfn)))
    else:
        ks.append(("b2", gs.RWKernel(["b2"], initial_step_size=cfg["step_b2"] * 0.3)))
    ks.append(("k", finite_discrete_gibbs_kernel("k", model)))
    order = list(rng.permutation(len(ks)))
    return [ks[i] for i in order]


def case_liesel(case, res):
    import jax
    import jax.numpy as jnp
    import liesel.goose as gs

    rng = rng_for(case["seed"], "c09", case["idx"])
    collide = bool(case.get("collide"))
    model, grp = build_model(rng, collide)
    cfg = case["cfg"]
    named = make_kernels(rng, model, grp, cfg)
    strong = ["beta", "sigma2_transformed", "tau2", "b2", "k"]
    if collide:
        # the beta kernel addresses its block by NODE name; fingerprints are taken by unambiguous node names
        import liesel.goose as gs_

        named = [(blk, (gs_.RWKernel(["beta_value"], initial_step_size=cfg["step_beta"] * 0.4) if blk == "beta" else k)) for blk, k in named]
    tracked = [nm for nm, ns in model.state.items() if ns.value is not None]
    b = gs.EngineBuilder(seed=case["engine_seed"], num_chains=2)
    b.show_progress = False
    if case.get("legacy_interface"):
        # the deprecated alias lsl.GooseModel, built from a model whose automatic updates the user had switched off
        import warnings

        import liesel.model as lsl_

        model.auto_update = False
        with warnings.catch_warnings():
            warnings.simplefilter("ignore")
            the_iface = lsl_.GooseModel(model)
        res.ev("legacy_goosemodel_interface_auto_update_off")
    else:
        the_iface = gs.LieselInterface(model)
    b.set_model(the_iface)
    b.set_initial_values(model.state)
    if case.get("reused_kernels"):
        # the kernel objects served another model before (same names and shapes, other functions); the user then hands
        # them this model's interface with set_model
        other, _ = build_model(rng_for(case["seed"], "c09-other", case["idx"]), collide, alt=True)
        other_iface = gs.LieselInterface(other)
        for _blk, k in named:
            k.set_model(other_iface)
        for _blk, k in named:
            k.set_model(the_iface)
        res.ev("kernels_reused_from_another_model", len(named))
    wrappers = []
    fp_keys = ["beta_value", "sigma2_transformed_value", "tau2_value", "b2_value", "k_value"] + (["beta_value_value"] if collide else [])
    for j, (blk, k) in enumerate(named):
        wk = RecordingWrapper(k, fp_keys)
        if case["idx"] % 2:
            wk.identifier = f"user{9 - j}_{blk}"     # user-chosen identifiers, not in alphabetical order
        wrappers.append((blk, wk))
        b.add_kernel(wk)
    b.positions_included = tracked
    b.set_epochs(mk_epochs(case["spec"]))
    eng = b.build()
    eng.sample_all_epochs()
    r = eng.get_results()
    ti = r.transition_infos.combine_all().unwrap()
    pos = {k: np.asarray(v) for k, v in r.positions.combine_all().unwrap().items()}
    w = {"order": [blk for blk, _ in named], "kinds": cfg, "schedule": case["spec"]}
    C, T = pos["beta_value"].shape[:2]
    own = {"beta": {"beta"}, "sigma2_transformed": {"sigma2_transformed"}, "tau2": {"tau2"}, "b2": {"b2"}, "k": {"k"}}
    infos = [ti[wk.identifier] for _, wk in wrappers]
    entry = [np.asarray(i.entry) for i in infos]   # [C, T-1, n_keys, 3]
    exit_ = [np.asarray(i.exit) for i in infos]
    nk = len(wrappers)
    # threading within an iteration and across iterations
    for j in range(1, nk):
        res.mon("kernel_starts_from_predecessor_output", C * (T - 1))
        if entry[j].tobytes() != exit_[j - 1].tobytes():
            bad = np.argwhere(np.any(entry[j] != exit_[j - 1], axis=(2, 3)))[0]
            res.violation("kernel-not-threaded", f"kernel #{j} ({wrappers[j][0]}) was entered with a state other than the output of "
                          f"kernel #{j - 1} ({wrappers[j - 1][0]}) at chain {bad[0]} iteration {bad[1]}", w)
    res.mon("iteration_starts_from_previous_output", C * (T - 2))
    if entry[0][:, 1:].tobytes() != exit_[-1][:, :-1].tobytes():
        res.violation("iteration-not-threaded", "an iteration did not start from the state left by the previous iteration", w)
    # only own keys change
    for j, (blk, wk) in enumerate(wrappers):
        ch = np.any(entry[j] != exit_[j], axis=3)      # [C, T-1, n_keys]
        res.mon("only_own_keys_change", C * (T - 1))
        for ki, key in enumerate(strong + (["<other variable named beta_value>"] if collide else [])):
            if key not in own[blk] and ch[:, :, ki].any():
                c_, t_ = np.argwhere(ch[:, :, ki])[0]
                res.violation("foreign-key-changed", f"kernel for block {blk} changed parameter {key} (chain {c_}, iteration {t_})", w)
                break
    if collide:
        jb = [j for j, (blk, _) in enumerate(wrappers) if blk == "beta"][0]
        moved_own = np.any(entry[jb][:, :, 0] != exit_[jb][:, :, 0])
        if not moved_own:
            res.violation("own-block-never-moves", "the kernel addressing node 'beta_value' never moved that node in the whole run "
                          "(a variable with the same name exists)", w)
    # derived quantities: recompute every stored iteration from its strong values
    # independent recomputation: direct assignment on a private deep copy of the model and a full update
    # (deliberately NOT through LieselInterface, which is part of what is being judged)
    import copy as _copy

    M2 = _copy.deepcopy(model)
    M2.auto_update = False
    strong_nodes = {"beta": "beta_value", "sigma2_transformed": "sigma2_transformed_value", "tau2": "tau2_value", "b2": "b2_value", "k": "k_value"}

    def recompute(vals):
        for k in strong:
            M2.vars[k].value = vals[k]
        M2.update()
        return {nm: M2.nodes[nm].value for nm in tracked}

    flat = {k: jnp.asarray(pos[strong_nodes[k]].reshape((C * T,) + pos[strong_nodes[k]].shape[2:])) for k in strong}
    rec = jax.jit(jax.vmap(recompute))(flat)
    for nm in tracked:
        got = pos[nm].reshape((C * T,) + pos[nm].shape[2:]).astype(np.float64)
        exp = np.asarray(rec[nm], np.float64)
        mon = "stored_log_prob_matches_recomputation" if nm == "_model_log_prob" else "derived_quantities_match_recomputation"
        res.mon(mon, C * T)
        tol = 2e-5 + 2e-5 * np.abs(exp)
        if nm in ("_model_log_prob", "_model_log_lik", "_model_log_prior") or nm.endswith("_log_prob"):
            tol = 2e-4 + 3e-5 * np.abs(exp)
        if got.shape != exp.shape or not np.all(same_within(got, exp, tol)):
            idx = np.argwhere(~same_within(got, exp, tol))[0] if got.shape == exp.shape else [0]
            i = int(idx[0])
            res.violation("derived-stale" if nm != "_model_log_prob" else "log-prob-stale",
                          f"stored value of node {nm} at chain {i // T} iteration {i % T} is {np.ravel(got[i])[:4].tolist()} but recomputing "
                          f"from the stored parameter values gives {np.ravel(exp[i])[:4].tolist()}", w)
            break
    # non-triviality: MH-type kernels both accepted and rejected
    ok = True
    for (blk, wk), info in zip(wrappers, infos):
        mv = np.asarray(info.position_moved)
        if type(wk._k).__name__ in ("RWKernel", "IWLSKernel", "MHKernel", "HMCKernel"):
            if not (np.any(mv == 1) and np.any(mv == 0)):
                ok = False
    if ok:
        res.nontriv(("c09", tuple(w["order"]), str(cfg)))
    res.ev("iterations_recomputed", C * T)
    res.sample = w


def case_eager(case, res):
    """The kernels of a sequence applied one after the other *eagerly* (no jit, as in debugging or a hand-written loop)
    on a Liesel model whose tau2 was started from an integer literal, with rejected interface calls in between: after
    every kernel only its own block has changed and the carried state equals the recomputation from the stored
    parameter values."""
    import copy as _copy

    import jax
    import jax.numpy as jnp
    import liesel.goose as gs
    from liesel.goose.epoch import EpochConfig, EpochType

    rng = rng_for(case["seed"], "c09-eager", case["idx"])
    model, grp = build_model(rng, False, int_init=bool(case["idx"] % 2))
    cfg = dict(case["cfg"], beta="rw" if case["cfg"]["beta"] in ("nuts", "hmc") else case["cfg"]["beta"],
               sigma2="rw" if case["cfg"]["sigma2"] == "nuts" else case["cfg"]["sigma2"])
    named = make_kernels(rng, model, grp, cfg)
    iface = gs.LieselInterface(model)
    for _blk, k in named:
        k.set_model(iface)
    strong = ["beta", "sigma2_transformed", "tau2", "b2", "k"]
    tracked = [nm for nm, ns in model.state.items() if ns.value is not None]
    M2 = _copy.deepcopy(model)
    M2.auto_update = False
    epoch = EpochConfig(EpochType.POSTERIOR, 10, 1, None).to_state(1, 1)
    state = model.state
    key = jax.random.PRNGKey(case["engine_seed"])
    kstates = {}
    w = {"order": [blk for blk, _ in named], "kinds": cfg, "eager": True, "tau2_started_from_integer_literal": bool(case["idx"] % 2)}
    n_moved = 0
    for it in range(case["n_iter"]):
        for j, (blk, k) in enumerate(named):
            key, k1, k2 = jax.random.split(key, 3)
            if (it * len(named) + j) % 4 == 1:
                # a rejected interface call (unknown key after a valid one) between two transitions
                try:
                    iface.update_state({"b2": jnp.full((4,), 100.0, jnp.float32), "no_such_parameter": 1.0}, state)
                    res.violation("bad-key-accepted", "update_state with an unknown key did not raise", w)
                except KeyError:
                    res.ev("rejected_interface_calls_between_transitions")
            if j not in kstates:
                kstates[j] = k.init_state(k1, state)
            before = {p: np.asarray(v) for p, v in iface.extract_position(strong, state).items()}
            if blk == "tau2":
                # the tau2 kernel works on the state it is handed: with the prior scale b changed in that state (by a
                # predecessor or by the user) the same key gives the draw of IG(a + rank/2, b' + q/2), i.e. the draw
                # rescaled by (b' + q/2) / (b + q/2)
                hyp = iface.extract_position(["b", "K", "b2"], state)
                b0, K0, be0 = float(hyp["b"]), np.asarray(hyp["K"], np.float64), np.asarray(hyp["b2"], np.float64)
                q = float(be0 @ K0 @ be0)
                st_b = iface.update_state({"b": jnp.asarray(3.0 * b0 + 1.0, jnp.float32)}, state)
                t_a = float(iface.extract_position(["tau2"], k.transition(k2, kstates[j], state, epoch).model_state)["tau2"])
                t_b = float(iface.extract_position(["tau2"], k.transition(k2, kstates[j], st_b, epoch).model_state)["tau2"])
                ratio = (3.0 * b0 + 1.0 + q / 2) / (b0 + q / 2)
                res.mon("kernel_reads_hyperparameters_from_the_state_it_is_handed")
                if not np.isfinite(t_a) or not np.isfinite(t_b) or abs(t_b / t_a - ratio) > 1e-3 * ratio:
                    res.violation("kernel-ignores-state", f"tau2 kernel, same key: draw {t_a} from the state with b={b0}, draw {t_b} from the "
                                  f"same state with b={3.0 * b0 + 1.0}; the conjugate update implies the ratio {ratio:.5f}, observed "
                                  f"{t_b / t_a:.5f}", w)
            out = k.transition(k2, kstates[j], state, epoch)
            kstates[j] = out.kernel_state
            state = out.model_state
            after = {p: np.asarray(v) for p, v in iface.extract_position(strong, state).items()}
            res.mon("eager_only_own_keys_change")
            for p in strong:
                if p != blk and (before[p].shape != after[p].shape or not np.array_equal(before[p], after[p])):
                    res.violation("foreign-key-changed", f"eager transition of the kernel for block {blk} changed parameter {p}: "
                                  f"{np.ravel(before[p])[:3].tolist()} -> {np.ravel(after[p])[:3].tolist()}", w)
            if not np.array_equal(before[blk], after[blk]):
                n_moved += 1
            for p in strong:
                M2.vars[p].value = jnp.asarray(after[p])
            M2.update()
            res.mon("eager_state_matches_recomputation")
            for nm in tracked:
                got = np.asarray(state[nm].value, np.float64)
                exp = np.asarray(M2.nodes[nm].value, np.float64)
                tol = 2e-4 + 3e-5 * np.abs(exp)
                if got.shape != exp.shape or not np.all(same_within(got, exp, tol)):
                    res.violation("derived-stale" if nm != "_model_log_prob" else "log-prob-stale",
                                  f"after the eager transition of the kernel for {blk} (iteration {it}): carried value of node {nm} is "
                                  f"{np.ravel(got)[:4].tolist()} but recomputing from the carried parameter values gives "
                                  f"{np.ravel(exp)[:4].tolist()}", w)
                    break
            if len(res.violations) >= 2:
                break
        if len(res.violations) >= 2:
            break
    if n_moved >= 3:
        res.nontriv(("c09-eager", tuple(w["order"]), case["idx"]))
    res.sample = w


def case_dict(case, res):
    import jax.numpy as jnp
    import liesel.goose as gs

    rng = rng_for(case["seed"], "c09-dict", case["idx"])

    def lp(s):
        return -0.5 * (jnp.sum(s["a"] ** 2) + jnp.sum((s["b"] - 0.5) ** 2) * 2 + jnp.sum(s["c"] ** 2))

    keys = ["a", "b", "c"]
    kernels = [("a", gs.RWKernel(["a"], initial_step_size=1.5)), ("b", gs.IWLSKernel(["b"], initial_step_size=1.2)),
               ("c", gs.HMCKernel(["c"], initial_step_size=0.9, num_integration_steps=2) if case["idx"] % 2 else gs.RWKernel(["c"], initial_step_size=1.0))]
    order = list(rng.permutation(3))
    kernels = [kernels[i] for i in order]
    b = gs.EngineBuilder(seed=case["engine_seed"], num_chains=2)
    b.show_progress = False
    b.set_model(gs.DictInterface(lp))
    b.set_initial_values({"a": jnp.asarray(0.1, jnp.float32), "b": jnp.asarray([0.2, 0.3], jnp.float32), "c": jnp.asarray([0.0, 0.1, -0.2], jnp.float32)})
    ws = []
    for j, (blk, k) in enumerate(kernels):
        wk = RecordingWrapper(k, keys)
        if case["idx"] % 2 == 0:
            wk.identifier = f"user{9 - j}_{blk}"
        ws.append((blk, wk))
        b.add_kernel(wk)
    if case.get("direct_sequence"):
        # the engine is put together by hand from a KernelSequence made from a list; the caller keeps using that list
        import jax
        from liesel.goose.engine import Engine
        from liesel.goose.kernel_sequence import KernelSequence

        iface = gs.DictInterface(lp)
        klist = [wk for _, wk in ws]
        for j, wk in enumerate(klist):
            wk.set_model(iface)
            if case["idx"] % 2:
                wk.identifier = f"kernel_{j:02d}"
        seq = KernelSequence(klist)
        klist.reverse()
        klist.pop()
        init = {"a": jnp.asarray(0.1, jnp.float32), "b": jnp.asarray([0.2, 0.3], jnp.float32), "c": jnp.asarray([0.0, 0.1, -0.2], jnp.float32)}
        states = jax.tree_util.tree_map(lambda x: jnp.broadcast_to(x, (2,) + jnp.shape(x)), init)
        eng = Engine(seeds=jax.random.split(jax.random.PRNGKey(case["engine_seed"]), 2), model_states=states, kernel_sequence=seq,
                     epoch_configs=mk_epochs(case["spec"]), jitted_sample_duration=5, model=iface, position_keys=keys,
                     show_progress=False)
        res.ev("hand_built_kernel_sequence_list_mutated_afterwards")
        got_order = [k.identifier for k in seq.get_kernels()]
        if got_order != [wk.identifier for _, wk in ws]:
            res.violation("kernel-order", f"KernelSequence configured as {[wk.identifier for _, wk in ws]} reports the kernels "
                          f"{got_order} after the caller modified the list it was built from", {"order": [blk for blk, _ in kernels]})
    else:
        b.set_epochs(mk_epochs(case["spec"]))
        eng = b.build()
    eng.sample_all_epochs()
    ti = eng.get_results().transition_infos.combine_all().unwrap()
    if any(wk.identifier not in ti for _, wk in ws):
        res.violation("kernel-order", f"transition infos exist for {sorted(ti)} only; configured kernels "
                      f"{[wk.identifier for _, wk in ws]}", {"order": [blk for blk, _ in kernels]})
        return
    infos = [ti[wk.identifier] for _, wk in ws]
    entry = [np.asarray(i.entry) for i in infos]
    exit_ = [np.asarray(i.exit) for i in infos]
    w = {"order": [blk for blk, _ in kernels], "schedule": case["spec"], "model": "dict"}
    res.mon("dict_model_threading")
    for j in range(1, 3):
        if entry[j].tobytes() != exit_[j - 1].tobytes():
            res.violation("kernel-not-threaded", f"dict model: kernel #{j} did not start from the output of kernel #{j - 1}", w)
    if entry[0][:, 1:].tobytes() != exit_[-1][:, :-1].tobytes():
        res.violation("iteration-not-threaded", "dict model: iteration did not start from the previous output", w)
    for j, (blk, wk) in enumerate(ws):
        ch = np.any(entry[j] != exit_[j], axis=3)
        for ki, key in enumerate(keys):
            if key != blk and ch[:, :, ki].any():
                res.violation("foreign-key-changed", f"dict model: kernel for {blk} changed {key}", w)
    res.nontriv(("c09-dict", tuple(w["order"]), case["idx"]))
    res.sample = w


def gen_cases(tier, seed):
    q = tier == "quick"
    cases = []
    for i in range(16 if q else 400):
        rng = rng_for(seed, "c09-gen", i)
        cfg = {"beta": str(rng.choice(["iwls", "rw", "nuts", "hmc"], p=[0.35, 0.3, 0.15, 0.2])),
               "sigma2": str(rng.choice(["rw", "mh", "nuts"], p=[0.45, 0.4, 0.15])),
               "b2": str(rng.choice(["iwls", "rw", "gibbs_user"])),
               "step_beta": float(rng.choice([0.8, 1.5, 2.5])), "step_s": float(rng.choice([0.8, 2.0])),
               "step_b2": float(rng.choice([1.0, 2.0]))}
        spec = [[1, 6, 1], [2, 6, 1], [3, 6, 1], [4, 12, 1]] if i % 2 else [[3, 10, 1], [4, 20, 1]]
        heavy = (cfg["beta"] in ("nuts", "hmc")) + (cfg["sigma2"] == "nuts")
        cases.append({"kind": "liesel", "idx": i, "seed": seed, "cfg": cfg, "spec": spec, "engine_seed": int(rng.integers(2 ** 30)),
                      "collide": bool(i % 4 == 3), "reused_kernels": bool(i % 3 == 1), "legacy_interface": bool(i % 4 == 2),
                      "cost": 10 + 10 * heavy})
    for i in range(6 if q else 160):
        rng = rng_for(seed, "c09-gene", i)
        cfg = {"beta": str(rng.choice(["iwls", "rw"])), "sigma2": str(rng.choice(["rw", "mh"])),
               "b2": str(rng.choice(["iwls", "rw", "gibbs_user"])), "step_beta": float(rng.choice([0.8, 1.5])),
               "step_s": float(rng.choice([0.8, 2.0])), "step_b2": float(rng.choice([1.0, 2.0]))}
        cases.append({"kind": "eager", "idx": 20000 + i, "seed": seed, "cfg": cfg, "n_iter": 3, "engine_seed": int(rng.integers(2 ** 30)),
                      "cost": 12})
    for i in range(6 if q else 160):
        rng = rng_for(seed, "c09-gend", i)
        cases.append({"kind": "dict", "idx": 10000 + i, "seed": seed, "spec": [[1, 5, 1], [3, 5, 1], [4, 10, 1]],
                      "engine_seed": int(rng.integers(2 ** 30)), "direct_sequence": bool(i % 2), "cost": 6})
    return cases


def run_case(case):
    res = CaseResult(case)
    res.evals = 1
    try:
        {"liesel": case_liesel, "eager": case_eager, "dict": case_dict}[case["kind"]](case, res)
    except Exception as exc:  # noqa: BLE001
        mech, text = exc_mech(exc)
        if mech is None:
            raise
        res.violation(mech, f"raised\n{text}", case)
    return res
