"""C01 — model cache coherence under random operation histories (shadow model + spec evaluator)."""

from __future__ import annotations

from vlib.coherence import Shadow, gen_ops
from vlib.common import CaseResult, exc_mech, rng_for, struct_hash
from vlib.gengraph import Program, gen_program, sane

ID = "C01"
RULE = (
    "random DAG programs (3-14 units: Value, Calc, TransientCalc, strong Var, weak Var over a Calc with "
    "VarValue proxy, Dist on strong/weak vars with per_obs True/False, InputGroup, unnamed and seeded "
    "nodes, shared inputs/diamonds) x random histories of {assign via Var.value / Value.value (new or "
    "identical value), auto_update toggle, update(), update(*names), state save/restore, reads, set_seed}, "
    "biased to 'assign with auto-update off -> targeted update of a sibling -> restore older state -> "
    "assign' and 'save while outdated -> full update -> restore -> update'; fragile node functions that raise on a "
    "poison value (assignment failing in the middle of a sweep); user-supplied log_prob nodes; plus generated "
    "statistical models (transforms, degenerate MVN, weak variables with distributions) under a graph-evaluator "
    "monitor. Also: values handed over in one re-used NumPy buffer refilled in place. Round 5: after a failed sweep, nodes that cannot be evaluated on the current inputs must be flagged outdated. non-trivial = history with a targeted update that left another node outdated and a "
    "restore of a state saved under a different dirty set; distinct by (program, history) hash"
)
REQUIRED = ["I6_coherent_after_failed_update", "G1_uptodate_equals_fromscratch", "G3_targeted_update_closure_uptodate", "I1_uptodate_equals_fromscratch", "I1_input_holds_assigned_value",
            "I2_full_update_leaves_nothing_outdated", "I3_targeted_update_closure_uptodate",
            "I4_evaluation_counts", "I5_state_roundtrip"]
ANCHORS = ["model/model.py:Model.update", "model/nodes.py:Node.flag_outdated", "model/nodes.py:Calc.update",
           "model/nodes.py:Dist.update", "model/model.py:Model._recursive_inputs"]
ASSUMPTIONS = ["node functions are total on the generated inputs",
               "evaluation counts are observed for Calc and Dist nodes (counters inside the supplied "
               "functions / distribution constructors); the three _model_* sum nodes are judged by value and flag only"]
WORKERS = 16
TIMEOUT = {"quick": 1500, "thorough": 10800}


def make_program(seed, idx, big=False):
    for attempt in range(50):
        rng = rng_for(seed, "c01-prog", idx, attempt)
        desc = gen_program(rng, n_units=(3, 18 if big else 12), p_user_lp=0.1, p_fragile=0.3)
        if sane(desc):
            return desc, rng
    raise RuntimeError("no sane program")


def run_realistic(case, res):
    """Generated statistical models (transformed variables, degenerate MVN priors, weak variables with
    distributions, user-supplied totals) and DistRegBuilder models under the graph-evaluator monitor."""
    import jax.numpy as jnp
    import numpy as np

    from vlib import statmodels as sm
    from vlib.graphshadow import GraphShadow

    rng = rng_for(case["seed"], "c01-real", case["idx"])
    desc = sm.gen_model(rng)
    vals = sm.initial_values(desc, rng)
    b = sm.build(desc, initial=vals)
    model = b.model
    gs_ = GraphShadow(model, res, tag="statmodel")
    gs_.check("build")
    gs_.all_uptodate("build")
    strong = [it for it in desc["items"] if it["t"] == "var"]
    names = list(model.nodes)
    for step in range(case["n_ops"]):
        r = rng.random()
        if r < 0.45:
            it = strong[int(rng.integers(len(strong)))]
            v = sm.draw_value(rng, it["fam"], tuple(it["shape"]))
            if it["name"] in b.transformed:
                tv = b.transformed[it["name"]]
                val = jnp.asarray(sm.to_unconstrained(sm.bij_kind(it), v), b.ft)
                gs_.assign(tv.value_node.name, val, via_var=tv.name if rng.random() < 0.5 else None)
            else:
                var = b.objs[it["name"]]
                val = jnp.asarray(v, b.ft)
                gs_.assign(var.value_node.name, val, via_var=var.name if rng.random() < 0.5 else None)
        elif r < 0.55:
            gs_.set_auto(bool(rng.random() < 0.5))
        elif r < 0.65:
            gs_.update()
        elif r < 0.85:
            k = int(rng.integers(1, 3))
            gs_.update([str(x) for x in rng.choice(names, size=k, replace=False)])
        elif r < 0.92:
            gs_.save(int(rng.integers(3)))
        else:
            gs_.restore(int(rng.integers(3)))
        res.ev("ops")
        if len(res.violations) >= 2:
            break
    res.nontriv(("real", case["idx"]))
    res.sample = {"kind": "realistic", "families": [(it["name"], it.get("fam"), it.get("transform", False)) for it in desc["items"] if "fam" in it],
                  "ops": gs_.hist[:10]}
    res.ev("realistic_models")


def run_case(case):
    res = CaseResult(case)
    res.evals = 1
    if case.get("kind") == "realistic":
        try:
            run_realistic(case, res)
        except Exception as exc:  # noqa: BLE001
            mech, text = exc_mech(exc)
            if mech is None:
                raise
            res.violation(mech, f"operation on a realistic model raised\n{text}", case)
        return res
    desc, rng = make_program(case["seed"], case["idx"], case.get("big", False))
    prog = Program(desc)
    try:
        prog.build()
    except Exception as exc:  # noqa: BLE001
        mech, text = exc_mech(exc)
        if mech is None:
            raise
        res.violation("build-" + mech, f"building a generated program raised\n{text}", desc)
        return res
    sh = Shadow(prog, res)
    sh.reuse = case["idx"] % 3 == 1
    ops = gen_ops(rng, prog, case["n_ops"])
    sh.check_values("build")
    sh.check_all_uptodate("build")
    try:
        sh.run_ops(ops)
    except Exception as exc:  # noqa: BLE001
        mech, text = exc_mech(exc)
        if mech is None:
            raise
        res.violation(mech, f"operation raised\n{text}", sh.w())
    if sh.saw_partial and sh.saw_restore_other_dirty:
        res.nontriv(struct_hash([desc, ops]))
    kinds = sorted({u["kind"] for u in desc["units"]})
    res.sample = {"units": desc["units"][:8], "shape": desc["shape"], "ops": sh.hist[:14], "unit_kinds": kinds,
                  "n_nodes": len(prog.model.nodes)}
    for k in kinds:
        res.ev("programs_with_" + k)
    if any(n.kind == "seed" for n in prog.nodes):
        res.ev("programs_with_seeded_nodes")
    if any(n.kind == "dist" for n in prog.nodes):
        res.ev("programs_with_dist")
    return res


def gen_cases(tier, seed):
    if tier == "quick":
        return ([{"idx": i, "seed": seed, "n_ops": 30, "cost": 1} for i in range(400)]
                + [{"kind": "realistic", "idx": i, "seed": seed, "n_ops": 25, "cost": 3} for i in range(60)])
    return ([{"idx": i, "seed": seed, "n_ops": 60, "big": i % 3 == 0, "cost": 2} for i in range(20000)]
            + [{"kind": "realistic", "idx": i, "seed": seed, "n_ops": 40, "cost": 4} for i in range(2400)])
