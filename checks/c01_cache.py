"""C01 — model cache coherence under random operation histories (shadow model + spec evaluator)."""

from __future__ import annotations

from vlib.coherence import Shadow, gen_ops
from vlib.common import CaseResult, exc_mech, rng_for, struct_hash
from vlib.gengraph import Program, gen_program, sane

ID = "C01"
RULE = (
    "random DAG programs (3-14 units: Value, Calc, TransientCalc, strong Var, weak Var over a Calc with "
    "VarValue proxy, Dist on strong/weak vars with per_obs True/False, InputGroup, unnamed and seeded "
    "nodes, shared inputs/diamonds) x random histories of {assign via Var.value / Value.value (new or "
    "identical value), auto_update toggle, update(), update(*names), state save/restore, reads, set_seed}, "
    "biased to 'assign with auto-update off -> targeted update of a sibling -> restore older state -> "
    "assign'. non-trivial = history with a targeted update that left another node outdated and a "
    "restore of a state saved under a different dirty set; distinct by (program, history) hash"
)
REQUIRED = ["I1_uptodate_equals_fromscratch", "I1_input_holds_assigned_value",
            "I2_full_update_leaves_nothing_outdated", "I3_targeted_update_closure_uptodate",
            "I4_evaluation_counts", "I5_state_roundtrip"]
ANCHORS = ["model/model.py:Model.update", "model/nodes.py:Node.flag_outdated", "model/nodes.py:Calc.update",
           "model/nodes.py:Dist.update", "model/model.py:Model._recursive_inputs"]
ASSUMPTIONS = ["node functions are total on the generated inputs",
               "evaluation counts are observed for Calc and Dist nodes (counters inside the supplied "
               "functions / distribution constructors); the three _model_* sum nodes are judged by value and flag only"]
WORKERS = 16
TIMEOUT = {"quick": 900, "thorough": 3600}


def make_program(seed, idx, big=False):
    for attempt in range(50):
        rng = rng_for(seed, "c01-prog", idx, attempt)
        desc = gen_program(rng, n_units=(3, 18 if big else 12), p_user_lp=0.1)
        if sane(desc):
            return desc, rng
    raise RuntimeError("no sane program")


def run_case(case):
    res = CaseResult(case)
    res.evals = 1
    desc, rng = make_program(case["seed"], case["idx"], case.get("big", False))
    prog = Program(desc)
    try:
        prog.build()
    except Exception as exc:  # noqa: BLE001
        mech, text = exc_mech(exc)
        if mech is None:
            raise
        res.violation("build-" + mech, f"building a generated program raised\n{text}", desc)
        return res
    sh = Shadow(prog, res)
    ops = gen_ops(rng, prog, case["n_ops"])
    sh.check_values("build")
    sh.check_all_uptodate("build")
    try:
        sh.run_ops(ops)
    except Exception as exc:  # noqa: BLE001
        mech, text = exc_mech(exc)
        if mech is None:
            raise
        res.violation(mech, f"operation raised\n{text}", sh.w())
    if sh.saw_partial and sh.saw_restore_other_dirty:
        res.nontriv(struct_hash([desc, ops]))
    kinds = sorted({u["kind"] for u in desc["units"]})
    res.sample = {"units": desc["units"][:8], "shape": desc["shape"], "ops": sh.hist[:14], "unit_kinds": kinds,
                  "n_nodes": len(prog.model.nodes)}
    for k in kinds:
        res.ev("programs_with_" + k)
    if any(n.kind == "seed" for n in prog.nodes):
        res.ev("programs_with_seeded_nodes")
    if any(n.kind == "dist" for n in prog.nodes):
        res.ev("programs_with_dist")
    return res


def gen_cases(tier, seed):
    if tier == "quick":
        return [{"idx": i, "seed": seed, "n_ops": 30, "cost": 1} for i in range(400)]
    return [{"idx": i, "seed": seed, "n_ops": 60, "big": i % 3 == 0, "cost": 2} for i in range(6000)]
