"""C15 — built models are complete, acyclic, uniquely named, frozen, and round-trip."""

from __future__ import annotations

import copy
import io
import os
import tempfile

import numpy as np

from vlib.coherence import Shadow, gen_ops
from vlib.common import CaseResult, exc_mech, off, rng_for, struct_hash
from vlib.gengraph import Program, gen_program, sane

ID = "C15"
RULE = (
    "random DAG programs (groups, seeded nodes, unnamed nodes, shared inputs) x histories over {build, "
    "structural mutate-attempts on every public mutator of Node/Calc/Dist/Var, attempts to put in-model "
    "nodes into another model (Model([...]), GraphBuilder.build_model/update/transform), deepcopy, "
    "build_model(copy=True) twice, save/load (file, buffer), copy_nodes_and_vars->rebuild, pop->rebuild, "
    "set_seed}; copying operations that fail on an uncopyable value; plus deliberately duplicate-named and cyclic graphs. After every rejected attempt the "
    "structural snapshot must be unchanged and the model must stay coherent under further assignments; "
    "every round-trip model is compared in state and behaviour (C01 monitor) and for independence. "
    "Also: rebuild from the same GraphBuilder after a rejected build; variables with user-named nodes (rename attempts in a model, same-named variables with distinct node names). Round 5: stand-alone Dist with a lonely `at` node; save/load and deepcopy of a model with pending updates. non-trivial = program with a shared input, an unnamed node and >= 1 round trip; distinct by program hash"
)
REQUIRED = ["builder_usable_after_rejected_build", "unchanged_after_failed_copy", "complete_and_unique", "outputs_inverse_of_inputs", "topological_order", "rejects_duplicates",
            "rejects_cycles", "mutation_rejected", "unchanged_after_rejection", "foreign_build_rejected",
            "coherent_after_rejection", "roundtrip_state_equal", "roundtrip_behaviour_equal", "roundtrip_independent"]
ANCHORS = ["model/model.py:Model.__init__", "model/model.py:Model.pop_nodes_and_vars",
           "model/model.py:Model.copy_nodes_and_vars", "model/model.py:GraphBuilder.build_model",
           "model/model.py:save_model", "model/nodes.py:Node._set_model", "model/nodes.py:Node.__getstate__"]
ASSUMPTIONS = ["Var.role, Var.info, Var.auto_transform and Node.monitor are not structural (they are unguarded by design)"]
WORKERS = 16
TIMEOUT = {"quick": 1500, "thorough": 10800}


# ------------------------------------------------------------------ snapshots
def snapshot(model):
    """Structural + state snapshot by object identity."""
    snap = {}
    for nm, n in model.nodes.items():
        v = n.value if not type(n).__name__.startswith(("Transient", "VarValue", "InputGroup")) else None
        snap[nm] = {
            "id": id(n), "name": n.name, "needs_seed": n.needs_seed,
            "inputs": [id(x) for x in n.inputs], "kwinputs": {k: id(x) for k, x in n.kwinputs.items()},
            "outputs": sorted(id(x) for x in n._outputs), "model": id(n.model) if n.model is not None else None,
            "fn": id(getattr(n, "_function", None)), "dist": id(getattr(n, "_distribution", None)),
            "at": id(getattr(n, "_at", None)), "per_obs": getattr(n, "_per_obs", None),
            "value": None if v is None else np.asarray(v).tobytes(), "outdated": bool(n.outdated),
            "var": id(n.var) if n.var is not None else None,
        }
    for nm, v in model.vars.items():
        snap["var:" + nm] = {"id": id(v), "name": v.name, "observed": v.observed, "parameter": v.parameter,
                             "value_node": id(v.value_node), "dist_node": id(v._dist_node),
                             "proxy": id(v.var_value_node), "strong": v.strong}
    snap["#nodes"] = sorted(model.nodes)
    snap["#vars"] = sorted(model.vars)
    return snap


def snap_diff(a, b):
    for k in a:
        if k not in b:
            return f"{k} disappeared"
        if a[k] != b[k]:
            if isinstance(a[k], dict):
                fields = [f for f in a[k] if a[k][f] != b[k].get(f)]
                return f"{k}: fields {fields} changed"
            return f"{k} changed"
    for k in b:
        if k not in a:
            return f"{k} appeared"
    return None


def state_map(model):
    return {k: (None if v.value is None else np.asarray(v.value), bool(v.outdated)) for k, v in model.state.items()}


def state_bytes(model):
    return {k: (None if v is None else v.tobytes(), o) for k, (v, o) in state_map(model).items()}


# ------------------------------------------------------------------ structure
def check_structure(res, prog, model, what, w):
    res.mon("complete_and_unique")
    names = list(model.nodes)
    if len(set(names)) != len(names) or any(not n for n in names):
        res.violation("names", f"{what}: empty or duplicate node names {names}", w)
    exp = {n.obj.name for n in prog.nodes}
    if set(names) != exp:
        res.violation("incomplete-model", f"{what}: model nodes {sorted(set(names) ^ exp)} differ from the recursive "
                      f"inputs of the added nodes", w)
    for n in prog.nodes:
        if model.nodes.get(n.obj.name) is not n.obj:
            res.violation("incomplete-model", f"{what}: node {n.obj.name} registered under another object", w)
            break
        if n.obj.model is not model:
            res.violation("model-reference", f"{what}: node {n.obj.name}.model is not the model", w)
            break
    vnames = list(model.vars)
    if len(set(vnames)) != len(vnames) or any(not v for v in vnames):
        res.violation("names", f"{what}: empty or duplicate variable names {vnames}", w)
    # outputs are the exact inverse of inputs (from the spec's own edge list)
    res.mon("outputs_inverse_of_inputs")
    for n in prog.nodes:
        exp_out = sorted(prog.nodes[c].obj.name for c in prog.children[n.sid])
        got_out = sorted(o.name for o in n.obj.outputs)
        if len(got_out) != len(set(got_out)):
            res.violation("outputs", f"{what}: duplicated outputs on {n.obj.name}: {got_out}", w)
            break
        if got_out != exp_out:
            res.violation("outputs", f"{what}: outputs of {n.obj.name} = {got_out}, inverse of inputs = {exp_out}", w)
            break
        exp_in = sorted(prog.nodes[p].obj.name for p in set(n.parents))
        got_in = sorted(i.name for i in n.obj.all_input_nodes())
        if got_in != exp_in:
            res.violation("inputs", f"{what}: inputs of {n.obj.name} = {got_in}, spec says {exp_in}", w)
            break
    # update order is topological
    res.mon("topological_order")
    order = getattr(model, "_sorted_nodes", None)
    if order is not None:
        posn = {id(o): i for i, o in enumerate(order)}
        if len(order) != len(prog.nodes):
            res.violation("topological-order", f"{what}: update order has {len(order)} nodes, model {len(prog.nodes)}", w)
        for n in prog.nodes:
            for p in n.parents:
                if posn.get(id(prog.nodes[p].obj), -1) >= posn.get(id(n.obj), -2):
                    res.violation("topological-order", f"{what}: {prog.nodes[p].obj.name} is updated after its consumer "
                                  f"{n.obj.name}", w)
                    return


# ------------------------------------------------------------------ mutators
def mutation_attempts(prog, rng):
    """(label, callable) pairs; each must raise and change nothing."""
    import liesel.model as lsl
    import tensorflow_probability.substrates.jax.bijectors as tfb
    import tensorflow_probability.substrates.jax.distributions as tfd

    out = []
    nodes = [n for n in prog.nodes]
    pick = lambda seq: seq[int(rng.integers(len(seq)))]  # noqa: E731
    n = pick(nodes).obj
    other = pick(nodes).obj
    out.append(("Node.name=", lambda n=n: setattr(n, "name", "renamed")))
    out.append(("Node.needs_seed=", lambda n=n: setattr(n, "needs_seed", not n.needs_seed)))
    out.append(("Node.set_inputs", lambda n=n, o=other: n.set_inputs(o)))
    out.append(("Node.add_inputs", lambda n=n, o=other: n.add_inputs(o)))
    out.append(("Node.add_inputs(kw)", lambda n=n: n.add_inputs(extra=lsl.Value(1.0))))
    calcs = [x.obj for x in nodes if x.kind in ("calc", "transient") and hasattr(x.obj, "function")]
    if calcs:
        c = pick(calcs)
        out.append(("Calc.function=", lambda c=c: setattr(c, "function", lambda *a, **k: 0.0)))
    dists = [x.obj for x in nodes if x.kind == "dist"]
    if dists:
        d = pick(dists)
        out.append(("Dist.distribution=", lambda d=d: setattr(d, "distribution", tfd.Normal)))
        out.append(("Dist.at=", lambda d=d: setattr(d, "at", d.at)))
        out.append(("Dist.per_obs=", lambda d=d: setattr(d, "per_obs", not d.per_obs)))
    vs = list(prog.var_objs.values())
    if vs:
        v = pick(vs)
        out.append(("Var.name=", lambda v=v: setattr(v, "name", "vrenamed")))
        out.append(("Var.observed=", lambda v=v: setattr(v, "observed", not v.observed)))
        out.append(("Var.parameter=", lambda v=v: setattr(v, "parameter", not v.parameter)))
        out.append(("Var.value_node=", lambda v=v: setattr(v, "value_node", lsl.Value(3.0))))
        out.append(("Var.dist_node=", lambda v=v: setattr(v, "dist_node", lsl.Dist(tfd.Normal, loc=0.0, scale=1.0))))
        out.append(("Var.dist_node=None", lambda v=v: setattr(v, "dist_node", None)))
        sd = [x for x in vs if x.strong and x.has_dist]
        if sd:
            t = pick(sd)
            out.append(("Var.transform", lambda t=t: t.transform(tfb.Softplus())))
    return out


def foreign_attempts(prog, rng):
    import warnings

    import liesel.model as lsl
    import tensorflow_probability.substrates.jax.bijectors as tfb

    nodes = [n.obj for n in prog.nodes if n.kind not in ("msum", "seed")]
    vs = list(prog.var_objs.values())
    pick = lambda seq: seq[int(rng.integers(len(seq)))]  # noqa: E731
    out = []
    n = pick(nodes)
    out.append(("Model([node])", lambda n=n: lsl.Model([n])))
    out.append(("Model([node], grow=False)", lambda n=n: lsl.Model([n], grow=False)))
    out.append(("GraphBuilder.add(node).build_model()", lambda n=n: lsl.GraphBuilder().add(n).build_model()))
    out.append(("GraphBuilder.add(node).build_model(copy=True)#then-original-intact", None))
    out.append(("GraphBuilder.add(node).update()", lambda n=n: lsl.GraphBuilder().add(n).update()))
    if vs:
        v = pick(vs)
        out.append(("Model([var])", lambda v=v: lsl.Model([v])))
        out.append(("GraphBuilder.add(var).build_model()", lambda v=v: lsl.GraphBuilder().add(v).build_model()))
        sd = [x for x in vs if x.strong and x.has_dist]
        if sd:
            t = pick(sd)

            def tr(t=t):
                with warnings.catch_warnings():
                    warnings.simplefilter("ignore")
                    return lsl.GraphBuilder().transform(t, tfb.Softplus)
            out.append(("GraphBuilder.transform(var)", tr))
    return [(a, f) for a, f in out if f is not None]


# ------------------------------------------------------------------ round trips
def attach_copy(desc, model, names):
    p = Program(desc)
    p.make_objects()      # throw-away objects so that spec nodes exist
    p.attach(model, names=names)
    return p


def compare_models(res, desc, names, M, M2, what, w, rng, n_ops=10):
    """State equal, behaviour equal (C01 monitor on the copy), independence."""
    res.mon("roundtrip_state_equal")
    a, b = state_map(M), state_map(M2)
    if set(a) != set(b):
        res.violation("roundtrip-names", f"{what}: node names differ: {sorted(set(a) ^ set(b))[:6]}", w)
        return
    for k in a:
        va, oa = a[k]
        vb, ob = b[k]
        same = oa == ob and (va is None) == (vb is None)
        if same and va is not None:
            if k in ("_model_log_prob", "_model_log_lik", "_model_log_prior"):
                # float32 sums over the distribution nodes: the order of the summands is not part of the state
                same = va.shape == vb.shape and np.allclose(va, vb, rtol=1e-5, atol=1e-5)
            else:
                same = va.shape == vb.shape and va.tobytes() == vb.tobytes()
        if not same:
            mech = "roundtrip-seed-lost" if k.endswith("_seed") else "roundtrip-state"
            res.violation(mech, f"{what}: node {k}: {None if vb is None else vb.tolist()} (outdated={ob}) vs original "
                          f"{None if va is None else va.tolist()} (outdated={oa})", w)
            return
    if sorted(M.vars) != sorted(M2.vars):
        res.violation("roundtrip-names", f"{what}: variable names differ", w)
        return
    for vn in M.vars:
        v1, v2 = M.vars[vn], M2.vars[vn]
        if (v1.observed, v1.parameter, v1.strong, v1.has_dist) != (v2.observed, v2.parameter, v2.strong, v2.has_dist):
            res.violation("roundtrip-flags", f"{what}: flags of variable {vn} differ", w)
            return
    if any(M.nodes[k] is M2.nodes[k] for k in a):
        res.violation("roundtrip-shared", f"{what}: the new model shares node objects with the original", w)
        return
    # behaviour of the copy under the C01 monitor; original must not move
    before = state_bytes(M)
    p2 = attach_copy(desc, M2, names)
    check_structure(res, p2, M2, what, w)
    sh = Shadow(p2, res, tag=what)
    # inputs currently held (e.g. after set_seed) are read from the model itself
    for n in p2.nodes:
        if n.kind in ("input", "seed"):
            p2.cur_inputs[n.sid] = np.asarray(n.obj.value)
    ops = gen_ops(rng, p2, n_ops)
    nv = len(res.violations)
    sh.run_ops(ops)
    res.mon("roundtrip_behaviour_equal")
    res.mon("roundtrip_independent")
    if len(res.violations) == nv and state_bytes(M) != before:
        res.violation("roundtrip-not-independent", f"{what}: operating on the new model changed the original", w)
    # and the other direction: assign on the original, copy unchanged
    import jax.numpy as jnp

    b2 = state_bytes(M2)
    vals = [n for n in M.nodes.values() if type(n).__name__ == "Value" and not n.name.startswith("_model")]
    if vals:
        n0 = vals[int(rng.integers(len(vals)))]
        old = n0.value
        n0.value = jnp.asarray(old) + 1.0
        if state_bytes(M2) != b2:
            res.violation("roundtrip-not-independent", f"{what}: assigning on the original changed the new model", w)
        n0.value = old
    return p2


def run_case(case):
    import jax
    import jax.numpy as jnp
    import liesel.model as lsl

    res = CaseResult(case)
    res.evals = 1
    rng = None
    for attempt in range(50):
        rng = rng_for(case["seed"], "c15-prog", case["idx"], attempt)
        desc = gen_program(rng, n_units=(3, 11))
        if sane(desc):
            break
    w = {"units": desc["units"][:10]}
    prog = Program(desc)
    try:
        M = prog.build()
    except Exception as exc:  # noqa: BLE001
        mech, text = exc_mech(exc)
        if mech is None:
            raise
        res.violation("build-" + mech, f"build raised\n{text}", w)
        return res
    names = prog.names()
    check_structure(res, prog, M, "build", w)
    has_seed = any(n.kind == "seed" for n in prog.nodes)
    if has_seed and rng.random() < 0.7:
        M.set_seed(jax.random.PRNGKey(int(rng.integers(1, 1000))))
        w["set_seed"] = True
    # ---- frozen
    snap = snapshot(M)
    attempts = mutation_attempts(prog, rng)
    for label, fn in attempts:
        res.mon("mutation_rejected")
        try:
            fn()
            res.violation("mutation-accepted", f"{label} on an in-model object succeeded", dict(w, attempt=label))
        except RuntimeError:
            pass
        except Exception as exc:  # noqa: BLE001
            # any exception is a rejection; record the type for the report
            res.ev("rejected_with_" + type(exc).__name__)
        res.mon("unchanged_after_rejection")
        d = snap_diff(snap, snapshot(M))
        if d:
            res.violation("changed-by-rejected-mutation", f"{label} was rejected but changed the model: {d}", dict(w, attempt=label))
            snap = snapshot(M)
    for label, fn in foreign_attempts(prog, rng):
        res.mon("foreign_build_rejected")
        try:
            fn()
            res.violation("foreign-build-accepted", f"{label} with a node/var that already belongs to a model succeeded",
                          dict(w, attempt=label))
        except Exception:  # noqa: BLE001
            pass
        res.mon("unchanged_after_rejection")
        d = snap_diff(snap, snapshot(M))
        if d:
            res.violation("changed-by-rejected-build", f"{label} was rejected but changed the original model: {d}",
                          dict(w, attempt=label))
            snap = snapshot(M)
            break
    # the model must still be coherent under further assignments
    res.mon("coherent_after_rejection")
    sh = Shadow(prog, res, tag="after-rejections")
    for n in prog.nodes:
        if n.kind in ("input", "seed"):
            prog.cur_inputs[n.sid] = np.asarray(n.obj.value)
    nv = len(res.violations)
    try:
        sh.run_ops(gen_ops(rng, prog, 8))
    except Exception as exc:  # noqa: BLE001
        mech, text = exc_mech(exc)
        if mech is None:
            raise
        res.violation("after-rejection-" + mech, f"model unusable after rejected attempts\n{text}", w)
    if len(res.violations) > nv:
        for v in res.violations[nv:]:
            v["mech"] = "incoherent-after-rejection:" + v["mech"]
    M.auto_update = True
    M.update()
    # ---- a model with pending updates (auto-update off, an input re-assigned, no update) comes back from save/load and
    # from deepcopy exactly as it was: same values, same outdated flags, auto-update still off
    setb = prog.settable()
    if setb and case["idx"] % 2:
        import io as _io2

        sid_, how_, obj_ = setb[int(rng.integers(len(setb)))]
        M.auto_update = False
        obj_.value = jnp.asarray(np.asarray(obj_.value) + np.float32(1.5))
        pend = state_map(M)
        n_out = sum(1 for _v, o_ in pend.values() if o_)
        for label in ("save/load", "deepcopy"):
            try:
                if label == "deepcopy":
                    Mp = copy.deepcopy(M)
                else:
                    bufp = _io2.BytesIO()
                    lsl.save_model(M, bufp)
                    bufp.seek(0)
                    Mp = lsl.load_model(bufp)
            except Exception as exc:  # noqa: BLE001
                mech, text = exc_mech(exc)
                if mech is None:
                    raise
                res.violation("roundtrip-raises", f"{label} of a model with pending updates raised\n{text[-800:]}", w)
                continue
            res.mon("roundtrip_state_equal")
            got = state_map(Mp)
            bad = [k for k in pend if k not in got or got[k][1] != pend[k][1] or (pend[k][0] is None) != (got[k][0] is None)
                   or (pend[k][0] is not None and pend[k][0].tobytes() != got[k][0].tobytes())]
            if bad or Mp.auto_update:
                k = bad[0] if bad else None
                res.violation("roundtrip-state", f"{label} of a model with {n_out} pending (outdated) nodes and auto-update off: "
                              + (f"node {k} came back as value {None if got.get(k, (None,))[0] is None else got[k][0].tolist()} "
                                 f"outdated={got.get(k, (None, None))[1]}, original value "
                                 f"{None if pend[k][0] is None else pend[k][0].tolist()} outdated={pend[k][1]}" if k else
                                 "auto_update came back switched on"), w)
        res.ev("pending_state_roundtrips")
        M.update()
        M.auto_update = True
        for n in prog.nodes:
            if n.kind in ("input", "seed"):
                prog.cur_inputs[n.sid] = np.asarray(n.obj.value)
    # ---- round trips
    trips = ["deepcopy", "copy_true_twice", "save_file", "save_buffer", "copy_nodes_rebuild"]
    chosen = [t for t in trips if rng.random() < 0.5]
    chosen.append("pop_rebuild")
    n_trip = 0
    for t in chosen:
        what = t
        try:
            if t == "deepcopy":
                M2 = copy.deepcopy(M)
            elif t == "copy_true_twice":
                # an independent builder over fresh objects of the same program, built twice with copy=True
                p3 = Program(desc)
                wire = p3.make_objects()
                gb = lsl.GraphBuilder()
                for ui in p3.roots():
                    gb.add(wire[ui])
                Ma = gb.build_model(copy=True)
                Mb = gb.build_model(copy=True)
                Mfresh = Program(desc).build()
                res.mon("roundtrip_state_equal")
                for nm_, Mx in (("first", Ma), ("second", Mb)):
                    sa, sb = state_bytes(Mfresh), state_bytes(Mx)
                    if sa != sb:
                        res.violation("roundtrip-state", f"build_model(copy=True) ({nm_}) differs from a plain build", w)
                if any(Ma.nodes[k] is Mb.nodes[k] for k in Ma.nodes):
                    res.violation("roundtrip-shared", "two copy=True builds share nodes", w)
                M2 = None
                compare_models(res, desc, names, Mfresh, Mb, "build_model(copy=True) second", w, rng)
                n_trip += 1
                continue
            elif t == "save_file":
                d = tempfile.mkdtemp(prefix="c15-")
                path = os.path.join(d, "m.dill")
                try:
                    lsl.save_model(M, path)
                    M2 = lsl.load_model(path)
                finally:
                    if os.path.exists(path):
                        os.unlink(path)
                    os.rmdir(d)
            elif t == "save_buffer":
                buf = io.BytesIO()
                lsl.save_model(M, buf)
                buf.seek(0)
                M2 = lsl.load_model(buf)
            elif t == "copy_nodes_rebuild":
                nodes, vs = M.copy_nodes_and_vars()
                M2 = lsl.GraphBuilder().add(*nodes.values(), *vs.values()).build_model()
            elif t == "pop_rebuild":
                ref = copy.deepcopy(M)
                nodes, vs = M.pop_nodes_and_vars()
                M2 = lsl.GraphBuilder().add(*nodes.values(), *vs.values()).build_model()
                M = ref  # the popped model is invalid by documentation; compare with its deep copy
            compare_models(res, desc, names, M, M2, t, w, rng)
            n_trip += 1
        except Exception as exc:  # noqa: BLE001
            mech, text = exc_mech(exc)
            if mech is None:
                raise
            key = "roundtrip-raises"
            if has_seed and "reserved name" in text:
                key = "rebuild-with-seeded-node"
            res.violation(key, f"{what} raised\n{text[-1200:]}", dict(w, roundtrip=what))
    kinds = [u["kind"] for u in desc["units"]]
    shared = any(sum(1 for u in desc["units"] if ui in u.get("parents", [])) >= 2 for ui in range(len(desc["units"])))
    unnamed = any(not u.get("name") for u in desc["units"])
    if shared and unnamed and n_trip >= 1:
        res.nontriv(struct_hash(desc))
    res.ev("roundtrips", n_trip)
    res.ev("mutation_attempts", len(attempts))
    res.sample = {"units": desc["units"][:8], "roundtrips": chosen, "mutators": [a for a, _ in attempts][:20],
                  "seeded": has_seed, "kinds": sorted(set(kinds))}
    # ---- negative builds on fresh objects
    negative_builds(res, rng)
    if case["idx"] % 4 == 0:
        failed_copy_scenario(res, rng)
    _ = jnp
    return res


def failed_copy_scenario(res, rng):
    """A model holding a value that cannot be deep-copied/pickled (a lock): every copying operation must
    fail *without* changing the model - in particular it must stay frozen and keep propagating assignments."""
    import copy as _copy
    import io as _io
    import threading

    import jax.numpy as jnp
    import liesel.model as lsl

    a = lsl.Var(jnp.asarray(1.0, jnp.float32), name="a")
    handle = lsl.Value(threading.Lock(), _name="handle")
    c = lsl.Calc(lambda x, h: x * 2.0, a, handle, _name="c")
    d = lsl.Calc(lambda y: y + 1.0, c, _name="d")
    M = lsl.GraphBuilder().add(d).build_model()
    snap = snapshot_no_values(M)
    attempts = {
        "copy_nodes_and_vars": lambda: M.copy_nodes_and_vars(),
        "deepcopy": lambda: _copy.deepcopy(M),
        "save_model": lambda: lsl.save_model(M, _io.BytesIO()),
        "_copy_computational_model": lambda: M._copy_computational_model(),
    }
    for label, fn in attempts.items():
        try:
            fn()
            res.ev("uncopyable_value_copied_anyway")
        except Exception:  # noqa: BLE001
            pass
        res.mon("unchanged_after_failed_copy")
        dff = snap_diff(snap, snapshot_no_values(M))
        if dff:
            res.violation("changed-by-failed-copy", f"{label} failed on a model with an uncopyable value but changed the model: {dff}",
                          {"attempt": label})
            snap = snapshot_no_values(M)
        # still frozen
        for mlabel, mfn in (("Node.name=", lambda: setattr(c, "name", "renamed")), ("Node.set_inputs", lambda: c.set_inputs(a)),
                            ("Calc.function=", lambda: setattr(c, "function", lambda *x: 0.0)), ("Var.name=", lambda: setattr(a, "name", "b"))):
            try:
                mfn()
                res.violation("mutation-accepted", f"after a failed {label}: {mlabel} on an in-model object succeeded", {"attempt": label})
                return
            except Exception:  # noqa: BLE001
                pass
        # still propagating
        a.value = jnp.asarray(float(rng.integers(2, 9)), jnp.float32)
        if off(float(d.value), 2.0 * float(a.value) + 1.0, 1e-6) or d.outdated:
            res.violation("incoherent-after-failed-copy", f"after a failed {label}: assignment no longer propagates (d={d.value})",
                          {"attempt": label})
            return
        snap = snapshot_no_values(M)


def snapshot_no_values(model):
    sn = {}
    for nm, n in model.nodes.items():
        sn[nm] = {"id": id(n), "name": n.name, "inputs": [id(x) for x in n.inputs], "kwinputs": {k: id(x) for k, x in n.kwinputs.items()},
                  "outputs": sorted(id(x) for x in n._outputs), "model": id(n.model) if n.model is not None else None,
                  "fn": id(getattr(n, "_function", None)), "outdated": bool(n.outdated)}
    sn["#nodes"] = sorted(model.nodes)
    sn["#vars"] = sorted(model.vars)
    return sn


def negative_builds(res, rng):
    import liesel.model as lsl
    import tensorflow_probability.substrates.jax.distributions as tfd_

    # duplicate node names
    res.mon("rejects_duplicates")
    a = lsl.Value(1.0, _name="dup")
    b = lsl.Value(2.0, _name="dup")
    c = lsl.Calc(lambda x, y: x + y, a, b, _name="c")
    try:
        lsl.GraphBuilder().add(c).build_model()
        res.violation("duplicate-accepted", "graph with two nodes named 'dup' was accepted", {})
    except Exception:  # noqa: BLE001
        pass
    v1 = lsl.Var(1.0, name="same")
    v2 = lsl.Var(2.0, name="same")
    c2 = lsl.Calc(lambda x, y: x + y, v1, v2, _name="c2")
    try:
        lsl.GraphBuilder().add(c2).build_model()
        res.violation("duplicate-accepted", "graph with two variables named 'same' was accepted", {})
    except Exception:  # noqa: BLE001
        pass
    # a stand-alone distribution node whose `at` node is reachable through nothing but that link
    res.mon("complete_and_unique")
    lonely = lsl.Value(0.3, _name="lonely")
    dfree = lsl.Dist(tfd_.Normal, loc=0.0, scale=1.0, _name="free_dist")
    dfree.at = lonely
    mfree = lsl.GraphBuilder().add(dfree).build_model()
    if "lonely" not in mfree.nodes or mfree.nodes["lonely"] is not lonely or lonely.model is not mfree:
        res.violation("incomplete", "a model built from a stand-alone Dist lacks the node the distribution is evaluated at "
                      f"(model.nodes = {sorted(mfree.nodes)}, the node's name is {lonely.name!r})", {})
    else:
        lp_before = float(mfree.log_prob)
        lonely.value = 2.0
        if abs(float(mfree.log_prob) - float(tfd_.Normal(0.0, 1.0).log_prob(2.0))) > 1e-5 or lp_before == float(mfree.log_prob):
            res.violation("incomplete", "assigning the `at` node of a stand-alone Dist does not update the model's log_prob", {})
        if dfree not in lonely.outputs:
            res.violation("outputs", "the `at` node of a stand-alone Dist does not list the Dist among its outputs", {})
    # two variables that end up with the same name although all their NODES have distinct (user-given) names
    import tensorflow_probability.substrates.jax.distributions as tfd

    u1 = lsl.Var(lsl.Value(1.0, _name="d1"), name="a")
    u2 = lsl.Var(lsl.Value(2.0, _name="d2"), name="b")
    u2.name = "a"
    c3 = lsl.Calc(lambda x, y: x + y, u1, u2, _name="c3")
    try:
        mdup = lsl.GraphBuilder().add(c3).build_model()
        res.violation("duplicate-accepted", "graph with two variables named 'a' (user-named value nodes 'd1' and 'd2', the second "
                      f"variable renamed before the build) was accepted; model.vars = {sorted(mdup.vars)}, "
                      f"{len([n for n in mdup.nodes.values() if n.var is not None])} nodes belong to variables", {})
    except Exception:  # noqa: BLE001
        pass
    # variables with user-named nodes are as frozen as any other
    res.mon("mutation_rejected")
    for nm_new in ("other", ""):
        f1 = lsl.Var(lsl.Value(1.0, _name="data"), name="x")
        f2 = lsl.Var(lsl.Value(0.5, _name="data2"), lsl.Dist(tfd.Normal, loc=0.0, scale=1.0, _name="mydist"), name="z")
        mfr = lsl.GraphBuilder().add(f1, f2).build_model()
        for fv, key in ((f1, "x"), (f2, "z")):
            try:
                fv.name = nm_new
                res.violation("mutation-accepted", f"Var.name = {nm_new!r} succeeded on a variable of a built model whose nodes have "
                              f"user-given names; model.vars keys {sorted(mfr.vars)}, the variable now reports name {fv.name!r}", {})
            except Exception:  # noqa: BLE001
                pass
            if fv.name != key or sorted(mfr.vars) != ["x", "z"] or mfr.vars[key] is not fv:
                res.violation("changed-by-rejected-mutation", f"after the attempt Var.name = {nm_new!r}: variable reports {fv.name!r}, "
                              f"model.vars keys {sorted(mfr.vars)}", {})
    # a rejected build must leave the builder usable: correct the graph and build again from the SAME builder
    res.mon("builder_usable_after_rejected_build")
    p1 = lsl.Value(1.0, _name="dup2")
    p2 = lsl.Value(2.0, _name="dup2")
    cc = lsl.Calc(lambda x, y: x + y, p1, p2, _name="cc")
    gbx = lsl.GraphBuilder().add(cc)
    try:
        gbx.build_model()
        res.violation("duplicate-accepted", "graph with two nodes named 'dup2' was accepted", {})
    except Exception:  # noqa: BLE001
        pass
    p2.name = "dup2_fixed"
    try:
        mfix = gbx.build_model()
        if float(mfix.nodes["cc"].value) != 3.0 or len(mfix.nodes) != 6:
            res.violation("rebuild-after-rejection", f"model built after correcting a rejected graph is wrong: nodes {sorted(mfix.nodes)}", {})
    except Exception as exc:  # noqa: BLE001
        res.violation("rebuild-after-rejection", f"after a rejected build_model() the corrected graph cannot be built from the same "
                      f"GraphBuilder: {type(exc).__name__}: {str(exc)[:200]}", {})
    # the same with a cycle that is then removed
    q0 = lsl.Value(1.0, _name="q0")
    qa = lsl.Calc(lambda x: x + 1.0, q0, _name="qa", update_on_init=False)
    qb = lsl.Calc(lambda x: x * 2.0, qa, _name="qb", update_on_init=False)
    qa.set_inputs(q0, qb)
    gby = lsl.GraphBuilder().add(qb)
    try:
        gby.build_model()
        res.violation("cycle-accepted", "2-cycle accepted", {})
    except Exception:  # noqa: BLE001
        pass
    qa.set_inputs(q0)
    try:
        mfix = gby.build_model()
        if float(mfix.nodes["qb"].value) != 4.0:
            res.violation("rebuild-after-rejection", "model built after removing a cycle is wrong", {})
    except Exception as exc:  # noqa: BLE001
        res.violation("rebuild-after-rejection", f"after a rejected (cyclic) build_model() the corrected graph cannot be built from the "
                      f"same GraphBuilder: {type(exc).__name__}: {str(exc)[:200]}", {})
    # name clash between an explicit name and the auto-naming scheme must still give unique names
    n0 = lsl.Value(1.0, _name="n0")
    un = lsl.Value(2.0)
    c3 = lsl.Calc(lambda x, y: x + y, n0, un, _name="c3")
    try:
        m = lsl.GraphBuilder().add(c3).build_model()
        if len(set(m.nodes)) != len(m.nodes) or "" in m.nodes:
            res.violation("names", "auto-naming produced duplicate/empty names", {})
    except Exception as exc:  # noqa: BLE001
        res.violation("valid-graph-rejected", f"graph with explicit name 'n0' and an unnamed node rejected: {exc!r}", {})
    # reserved names
    r = lsl.Value(1.0, _name="_model_log_prob")
    try:
        lsl.GraphBuilder().add(r).build_model()
        res.violation("reserved-name-accepted", "node named _model_log_prob accepted", {})
    except Exception:  # noqa: BLE001
        pass
    # cycles
    res.mon("rejects_cycles")
    k = int(rng.integers(2, 5))
    vals = [lsl.Value(float(i), _name=f"in{i}") for i in range(k)]
    calcs = [lsl.Calc(lambda *xs: sum(xs), vals[i], _name=f"cy{i}", update_on_init=False) for i in range(k)]
    for i in range(k):
        calcs[i].set_inputs(vals[i], calcs[(i + 1) % k])
    try:
        lsl.GraphBuilder().add(calcs[0]).build_model()
        res.violation("cycle-accepted", f"graph with a {k}-cycle of Calc nodes was accepted", {})
    except Exception:  # noqa: BLE001
        pass
    s = lsl.Calc(lambda x: x, vals[0], _name="selfloop", update_on_init=False)
    s.set_inputs(s)
    try:
        lsl.GraphBuilder().add(s).build_model()
        res.violation("cycle-accepted", "self-loop accepted", {})
    except Exception:  # noqa: BLE001
        pass


def gen_cases(tier, seed):
    n = 300 if tier == "quick" else 16000
    return [{"idx": i, "seed": seed, "cost": 1} for i in range(n)]
