#!/bin/bash
# usage: tools/run_mutant.sh <patch-file> <CNN> [more check args]
# Applies the patch to a scratch copy of /repo (outside /repo and /verif), runs the check
# against it via LIESEL_REPO, prints the verdict and removes the copy.
set -u
PATCH="$(realpath "$1")"; shift
HERE="$(cd "$(dirname "${BASH_SOURCE[0]}")/.." && pwd)"
SCR="/var/tmp/liesel-mut-$$"
rm -rf "$SCR"; mkdir -p "$SCR"
rsync -a --exclude .git --exclude '*.pyc' --exclude __pycache__ /repo/ "$SCR/"
if ! (cd "$SCR" && patch -p1 -s < "$PATCH"); then echo "PATCH FAILED"; rm -rf "$SCR"; exit 3; fi
LIESEL_REPO="$SCR" VERIF_EVIDENCE_DIR="$SCR/evidence" "$HERE/check" "$@" > "$SCR/out.txt" 2>&1
rc=$?
grep -E "VIOLATION|INCONCLUSIVE|HELD|KNOWN-FINDING" "$SCR/out.txt" | cut -c1-300 | head -8
echo "mutant $(basename "$PATCH") check $1 -> exit $rc"
rm -rf "$SCR"
exit $rc
