#!/bin/bash
# usage: tools/try_seeded.sh <CNN> <k> [extra check ids...]
# Confirms a sub-agent's seeded defect /tmp/seed/<CNN>.out/d<k>.{patch,_demo.py,_meta.json} in the scratch
# worktree /tmp/seed/<CNN> (demo passes clean / fails patched; repository tests pass patched), runs the
# property's check against the patched worktree, and files everything under seeded/<CNN>-d<k>/.
set -u
ID="$1"; K="$2"; shift 2
PID="${ID:0:3}"     # C01r2 -> property C01
HERE="$(cd "$(dirname "${BASH_SOURCE[0]}")/.." && pwd)"
WT="/tmp/seed/$ID"; OUT="/tmp/seed/$ID.out"
P="$OUT/d$K.patch"; DEMO="$OUT/d${K}_demo.py"
DEST="$HERE/seeded/$ID-d$K"
[ -f "$P" ] || { echo "no patch $P"; exit 3; }
cd "$WT" && git checkout -q -- . && git clean -fdq
export JAX_PLATFORMS=cpu
clean_rc=0; PYTHONPATH="$WT" timeout 900 /venv/bin/python "$DEMO" > "$OUT/d${K}_clean.log" 2>&1 || clean_rc=$?
git apply "$P" || { echo "patch does not apply"; exit 3; }
pat_rc=0; PYTHONPATH="$WT" timeout 900 /venv/bin/python "$DEMO" > "$OUT/d${K}_patched.log" 2>&1 || pat_rc=$?
test_rc=0
if [ "${SKIP_TESTS:-0}" != "1" ]; then
  PYTHONPATH="$WT" timeout 1800 /venv/bin/python -m pytest -q -p no:cacheprovider -n 8 tests > "$OUT/d${K}_tests.log" 2>&1 || test_rc=$?
fi
echo "demo clean rc=$clean_rc patched rc=$pat_rc ; tests rc=$test_rc ($(tail -1 "$OUT/d${K}_tests.log" 2>/dev/null))"
declare -A CR
for C in "$PID" "$@"; do
  rc=0
  LIESEL_REPO="$WT" VERIF_EVIDENCE_DIR="$OUT/ev" "$HERE/check" "$C" --tier "${TIER:-quick}" > "$OUT/d${K}_check_$C.log" 2>&1 || rc=$?
  CR[$C]=$rc
  echo "check $C -> exit $rc : $(grep -m2 -E 'violation|INCONCLUSIVE' "$OUT/d${K}_check_$C.log" | cut -c1-260 | tr '\n' ' ')"
done
git checkout -q -- . && git clean -fdq
if [ $clean_rc -eq 0 ] && [ $pat_rc -ne 0 ] && [ $test_rc -eq 0 ]; then
  mkdir -p "$DEST"
  cp "$P" "$DEST/patch.diff"; cp "$DEMO" "$DEST/demo.py"
  python3 - "$OUT/d${K}_meta.json" "$DEST/meta.json" "$PID" "$K" "${CR[$PID]}" <<'EOF'
import json,sys
src,dst,pid,k,rc=sys.argv[1:6]
try: m=json.load(open(src))
except Exception: m={}
m.update({"property":pid,"source":"independent sub-agent (given only the property text and a scratch worktree)",
 "confirmed":{"demo_on_clean_tree":"PASS (exit 0)","demo_with_patch":"FAIL (exit !=0)","repository_tests_with_patch":"pass (pytest -n 8 tests)"},
 "check_result_quick":{"0":"MISSED (exit 0)","1":"caught (exit 1, VIOLATION)","2":"inconclusive (exit 2)"}.get(rc,rc),
 "ran":f"tools/try_seeded.sh {pid} {k}"})
json.dump(m,open(dst,"w"),indent=1)
EOF
  echo "kept -> $DEST"
else
  echo "NOT kept (demo/test conditions not met)"
fi
