#!/usr/bin/env python3
"""Self-validation: apply each registered property-breaking replacement to a scratch copy of
/repo (outside /repo and /verif), run the property's check against it with LIESEL_REPO, and
report whether the check fired (exit 1 + VIOLATION line).

usage: tools/run_mutants.py [--only C01[,C05]] [--name substr] [--tier quick] [-j 4]
Mutants live in mutants/registry.py as (name, property, file, old, new[, count]).
"""

from __future__ import annotations

import argparse
import importlib.util
import os
import shutil
import subprocess
import sys
import tempfile
import time
from concurrent.futures import ThreadPoolExecutor

ROOT = os.path.dirname(os.path.dirname(os.path.abspath(__file__)))
REPO = os.environ.get("LIESEL_REPO_SRC", "/repo")


def load_registry():
    spec = importlib.util.spec_from_file_location("registry", os.path.join(ROOT, "mutants", "registry.py"))
    mod = importlib.util.module_from_spec(spec)
    spec.loader.exec_module(mod)
    return mod.MUTANTS


def run_one(m, tier, workers):
    scr = tempfile.mkdtemp(prefix="liesel-mut-", dir="/var/tmp")
    try:
        subprocess.run(["rsync", "-a", "--exclude", ".git", "--exclude", "__pycache__", "--exclude", "docs",
                        REPO + "/", scr + "/"], check=True)
        edits = m["edits"] if "edits" in m else [(m["file"], m["old"], m["new"])]
        for f, old, new in edits:
            path = os.path.join(scr, f)
            src = open(path).read()
            if src.count(old) < 1:
                return m["name"], "STALE (pattern not found)", 0.0, ""
            src = src.replace(old, new, m.get("count", 1))
            open(path, "w").write(src)
        r = subprocess.run([sys.executable, "-c", "import ast,sys;[ast.parse(open(p).read()) for p in sys.argv[1:]]"]
                           + [os.path.join(scr, f) for f, _, _ in edits], capture_output=True, text=True)
        if r.returncode != 0:
            return m["name"], "DOES NOT PARSE", 0.0, r.stderr[-300:]
        env = dict(os.environ, LIESEL_REPO=scr, VERIF_EVIDENCE_DIR=os.path.join(scr, "_evidence"),
                   VERIF_WORKERS=str(workers))
        t0 = time.time()
        r = subprocess.run([os.path.join(ROOT, "check"), m["property"], "--tier", tier],
                           capture_output=True, text=True, env=env)
        dt = time.time() - t0
        lines = [ln for ln in r.stdout.splitlines() if "violation" in ln.lower() or "INCONCLUSIVE" in ln]
        verdict = {0: "MISSED (exit 0)", 1: "caught", 2: "INCONCLUSIVE (exit 2)"}.get(r.returncode, f"exit {r.returncode}")
        return m["name"], verdict, dt, "\n".join(lines[:3])[:600]
    finally:
        shutil.rmtree(scr, ignore_errors=True)


def main():
    ap = argparse.ArgumentParser()
    ap.add_argument("--only", default="")
    ap.add_argument("--name", default="")
    ap.add_argument("--tier", default="quick")
    ap.add_argument("-j", type=int, default=4)
    a = ap.parse_args()
    muts = load_registry()
    if a.only:
        want = set(a.only.upper().split(","))
        muts = [m for m in muts if m["property"] in want]
    if a.name:
        muts = [m for m in muts if a.name in m["name"]]
    workers = max(2, 16 // max(1, min(a.j, len(muts))))
    missed = 0
    with ThreadPoolExecutor(max_workers=a.j) as ex:
        for name, verdict, dt, detail in ex.map(lambda m: run_one(m, a.tier, workers), muts):
            print(f"{verdict:28s} {name}  ({dt:.0f}s)")
            if verdict != "caught":
                missed += 1
                if detail:
                    print("    " + detail.replace("\n", "\n    "))
            elif os.environ.get("VERBOSE"):
                print("    " + detail.replace("\n", "\n    "))
    print(f"{len(muts) - missed}/{len(muts)} caught")
    return 1 if missed else 0


if __name__ == "__main__":
    sys.exit(main())
