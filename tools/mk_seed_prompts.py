#!/usr/bin/env python3
"""Writes the prompts for the next round of independently seeded defects to /tmp/seed/<ID>r<N>.prompt.txt.
A prompt holds the property text, the protocol and one-line summaries of the defects earlier rounds produced for that
property (so that the new ones use other mechanisms) - nothing about how /verif checks the property.
usage: tools/mk_seed_prompts.py <round> [ids...]"""
import glob
import json
import os
import re
import sys

ROOT = os.path.dirname(os.path.dirname(os.path.abspath(__file__)))
rnd = int(sys.argv[1])
ids = sys.argv[2:] or [f"C{i:02d}" for i in range(1, 21)]
for pid in ids:
    src = f"/tmp/seed/{pid}r3.prompt.txt"
    txt = open(src).read()
    head, rest = txt.split("Earlier defects:\n", 1)
    _, tail = rest.split("\n\n\nTask:", 1)
    lines = []
    for d in sorted(glob.glob(os.path.join(ROOT, "seeded", pid + "*"))):
        m = json.load(open(os.path.join(d, "meta.json")))
        lines.append("- " + " ".join((m.get("summary") or "").split())[:330])
    out = head + "Earlier defects:\n" + "\n".join(lines) + "\n\n\nTask:" + tail
    if rnd >= 5:
        out = out.replace("(g) two cooperating edits that each look like a harmless clean-up.",
                          "(g) two cooperating edits that each look like a harmless clean-up; (h) the interaction of two "
                          "features of the public API that are each exercised alone by the tests; (i) what is left behind when a "
                          "user-supplied function (node function, proposal, log-prob, jitter, transition function) raises or "
                          "returns something unusual (NaN, wrong shape, weak type); (j) public helper functions and "
                          "convenience wrappers that reach the same machinery by another path than the one everybody uses; "
                          "(k) values at the edge of the documented domain (empty collections, a single chain, a single "
                          "iteration, duration 1, thinning equal to the duration).")
    out = out.replace(f"{pid}r3", f"{pid}r{rnd}")
    open(f"/tmp/seed/{pid}r{rnd}.prompt.txt", "w").write(out)
    print(pid, len(lines), "earlier defects")
