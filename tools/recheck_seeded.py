#!/usr/bin/env python3
"""Re-runs the current quick tier of the property's check against already filed seeded defects (regression of the
checks themselves: later changes to the generators must not lose an earlier catch).
usage: tools/recheck_seeded.py [-j N] [--sample K --seed S | names...]"""
import argparse
import glob
import json
import os
import random
import shutil
import subprocess
import tempfile
from concurrent.futures import ThreadPoolExecutor

ROOT = os.path.dirname(os.path.dirname(os.path.abspath(__file__)))


def one(d):
    name = os.path.basename(d)
    pid = name[:3]
    scr = tempfile.mkdtemp(prefix=f"liesel-recheck-{name}-", dir="/var/tmp")
    try:
        subprocess.run(["rsync", "-a", "--exclude", ".git", "/repo/", scr + "/"], check=True)
        r = subprocess.run(["patch", "-p1", "-s", "-i", os.path.join(d, "patch.diff")], cwd=scr, capture_output=True, text=True)
        if r.returncode != 0:
            return name, "patch does not apply", ""
        env = dict(os.environ, LIESEL_REPO=scr, VERIF_EVIDENCE_DIR=os.path.join(scr, "_ev"), VERIF_WORKERS="8")
        r = subprocess.run([os.path.join(ROOT, "check"), pid], capture_output=True, text=True, env=env)
        first = next((ln for ln in r.stdout.splitlines() if "violation" in ln), "")[:160]
        return name, {0: "MISSED", 1: "caught", 2: "inconclusive"}.get(r.returncode, str(r.returncode)), first
    finally:
        shutil.rmtree(scr, ignore_errors=True)


def main():
    ap = argparse.ArgumentParser()
    ap.add_argument("-j", type=int, default=2)
    ap.add_argument("--sample", type=int, default=0)
    ap.add_argument("--seed", type=int, default=1)
    ap.add_argument("names", nargs="*")
    a = ap.parse_args()
    dirs = sorted(glob.glob(os.path.join(ROOT, "seeded", "C*")))
    if a.names:
        dirs = [d for d in dirs if os.path.basename(d) in a.names]
    elif a.sample:
        random.Random(a.seed).shuffle(dirs)
        dirs = dirs[: a.sample]
    bad = 0
    with ThreadPoolExecutor(max_workers=a.j) as ex:
        for name, verdict, first in ex.map(one, dirs):
            print(f"{verdict:14s} {name}  {first}", flush=True)
            bad += verdict != "caught"
    print(f"{len(dirs) - bad}/{len(dirs)} caught")


if __name__ == "__main__":
    main()
