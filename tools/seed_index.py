#!/usr/bin/env python3
"""Regenerates seeded/INDEX.md (which check catches which independently seeded defect) from seeded/*/meta.json."""
import glob
import json
import os

ROOT = os.path.dirname(os.path.dirname(os.path.abspath(__file__)))
rows = []
for d in sorted(glob.glob(os.path.join(ROOT, "seeded", "C*"))):
    m = json.load(open(os.path.join(d, "meta.json")))
    name = os.path.basename(d)
    summ = " ".join((m.get("summary") or "").split())[:260]
    needs = " ".join((m.get("needs") or "").split())[:200]
    rows.append((name, m.get("property"), summ, needs, m.get("check_result_quick", "?"), m.get("first_run", "?"),
                 " ".join((m.get("strengthening") or "").split())))
out = ["# Independently seeded defects\n",
       "Each defect was produced by a sub-agent that saw only the property text and a scratch worktree; it keeps the 373 "
       "repository tests green. `first run` is the verdict of the check *as it was when the defect arrived*; where that was a "
       "miss, `strengthening` says how the check was widened (never by special-casing the patch). `now` is the verdict of "
       "the current quick tier.\n",
       "| defect | summary | needs | first run | now | strengthening |", "|---|---|---|---|---|---|"]
for r in rows:
    first = "missed" if "MISSED" in r[5] or r[5].startswith(("missed", "inconclusive")) else ("caught" if "caught" in r[5] else r[5])
    now = "caught" if "caught" in r[4] else r[4]
    out.append(f"| {r[0]} | {r[2]} | {r[3]} | {first} | {now} | {r[6]} |")
n_miss = sum(1 for r in rows if "MISSED" in r[5] or r[5].startswith(("missed", "inconclusive")))
out.append(f"\n{len(rows)} defects; {n_miss} missed at first and caught after strengthening; "
           f"{sum(1 for r in rows if 'caught' not in r[4])} currently not caught.\n")
open(os.path.join(ROOT, "seeded", "INDEX.md"), "w").write("\n".join(out))
print(len(rows), "defects,", n_miss, "missed at first")
