#!/usr/bin/env python3
"""Regenerates MANIFEST.json from the table below (kept in one place so that the
manifest stays valid and consistent while checks are added)."""

import glob
import json
import os

ROOT = os.path.dirname(os.path.dirname(os.path.abspath(__file__)))

TRUST = ("Trusted: CPython 3.12, JAX/XLA CPU, TFP and blackjax primitives, numpy/scipy float64 "
         "oracles, and the harness itself (generators, shadow models, probe kernels; validated "
         "by the seeded-defect runs recorded in DESIGN.md). Held = no violation on the "
         "executions explored; nothing is claimed about inputs no generator produced.")

CHECKS = {
    "C01": ("invariant + reference-model monitor: spec evaluator and shadow dirtiness model in lock-step with random operation histories on random DAG programs; evaluation counters inside node functions",
            "5/C01"),
    "C02": ("reference-model monitor: float64 scipy densities per family vs model log_prob/log_lik/log_prior on generated statistical programs; per_obs flip metamorphic check",
            "5/C02"),
    "C03": ("history monitor: memo-cache of (position,state)->result, direct-assignment twin model, eager/jit/vmap comparison, before/after byte snapshots",
            "5/C03"),
    "C04": ("distributional monitor: joint-distribution (Geweke/SBC) test over thousands of independent chains per kernel configuration, two-stage z/KS rule",
            "5/C04"),
    "C05": ("black-box monitor of the real mh_step with a scripted model: per-key monotone threshold over an acceptance-probability ladder, zero-draw boundary keys, NaN/inf scenarios, eager/jit/vmap",
            "5/C05"),
    "C06": ("reference-model monitor: float64 closed-form proposal densities and acceptance ratio vs the reported acceptance probability of every observed transition (enriched mh_step wrapper)",
            "5/C06"),
    "C07": ("trace-specification checker over in-state event logs of probe kernels driven by the real engine; driving-mode equivalence",
            "5/C07"),
    "C08": ("reference-model monitor: pure-Python simulation of deterministic probe kernels vs stored chains; chunk-size metamorphic comparison",
            "5/C08"),
    "C09": ("invariant monitor: recording wrappers around real kernels (entry/exit fingerprints) and off-line recomputation of all derived quantities of every stored iteration",
            "5/C09"),
    "C10": ("history monitors: bitwise run comparison, distinctness of all logged PRNG keys, chain-isolation metamorphic runs, observed jitter calls",
            "5/C10"),
    "C11": ("reference-model monitor: float64 dual-averaging recurrence replayed over stored kernel states and acceptance probabilities of engine runs; monotonicity and frozen-epoch constancy",
            "5/C11"),
    "C12": ("reference-model monitor: variance/covariance of the recorded history in ravel_pytree coordinate order vs tuned inverse mass matrix; key-order and co-kernel metamorphic checks",
            "5/C12"),
    "C13": ("distributional monitor: draws vs numerically normalised model joint density along the variable (KS / exact multinomial), two-stage rule",
            "5/C13"),
    "C14": ("reference-model monitor: change-of-variables identity with autodiff Jacobian and an untouched TFP instance at random points",
            "5/C14"),
    "C15": ("structural invariant monitor after every build/pop/copy/save/load/mutate-attempt operation plus behavioural twin comparison",
            "5/C15"),
    "C16": ("exhaustive small-domain enumeration + random wide sampling against a validity predicate and an independent Stan window rule; builder chunk divisibility with real sampling",
            "5/C16"),
    "C17": ("sharp-conditional monitor: tiny-scale children must sit at f(new parent draw); seed determinism, skip-set byte equality, coherence after update",
            "5/C17"),
    "C18": ("reference-model monitor: float64 eigendecomposition range-space density, closed-form copula density, autodiff derivatives, sample-moment tests",
            "5/C18"),
    "C19": ("conservation monitor: prescribed error-code tables of probe kernels vs error log / summary counts per kernel, code, chain, phase; exact round-trips",
            "5/C19"),
    "C20": ("exhaustive small-alphabet enumeration of the stopper rule + monitors on real optim_flat runs (batch membership observed via debug callbacks)",
            "5/C20"),
}

LEVEL_TEXT = {
    "default": ("Runtime monitoring of the real code under generated workloads: every explored "
                "execution is judged by an oracle that is valid for any input of the quantified "
                "class; evidence lists what the monitors observed. This is exploration, not proof: "
                "it covers the executions produced."),
}

NOT_YET = "check not built yet in this round (design in DESIGN.md section 5); will be claimed once its monitor has been validated"


def main():
    built = {}
    for p in sorted(glob.glob(os.path.join(ROOT, "checks", "c[0-9][0-9]_*.py"))):
        pid = os.path.basename(p)[:3].upper()
        built[pid] = p
    disabled = set()
    dpath = os.path.join(ROOT, "tools", "disabled.json")
    reasons = {}
    if os.path.exists(dpath):
        reasons = json.load(open(dpath))
        disabled = set(reasons)
    checks = []
    na = []
    for pid, (tech, ref) in CHECKS.items():
        if pid in built and pid not in disabled:
            checks.append({
                "property_id": pid,
                "quick_cmd": f"./check {pid} --tier quick",
                "thorough_cmd": f"./check {pid} --tier thorough",
                "evidence_file": f"evidence/{pid}.json",
                "replay_cmd_template": "./check --replay {path}",
                "engine": "vlib-runner",
                "level_claimed": {
                    "category": "exploration",
                    "text": LEVEL_TEXT["default"],
                    "design_ref": f"DESIGN.md section {ref}",
                },
                "level_note": TRUST,
                "technique": "runtime monitoring: " + tech,
            })
        else:
            na.append({"property_id": pid, "reason": reasons.get(pid, NOT_YET)})
    man = {
        "version": 1,
        "setup_cmd": "./check --selftest",
        "hooks": {
            "guard": "LIESEL_VERIF",
            "enable": "no source hooks in /repo: all instrumentation is harness-side (probe kernels, wrappers installed by /verif when LIESEL_VERIF=1); checks import /repo's working tree via PYTHONPATH",
            "baseline_off_cmd": "cd /repo && env -u LIESEL_VERIF /venv/bin/python -m pytest -ra -q -p no:cacheprovider --timeout=900 --continue-on-collection-errors",
            "source_commits": [],
            "add_only": True,
        },
        "engines": [{
            "name": "vlib-runner",
            "path": "vlib/",
            "serves_properties": [c["property_id"] for c in checks],
            "kind_free_text": "runtime monitors over generated workloads on the real code; subprocess fan-out, three-valued verdict",
        }],
        "checks": checks,
        "not_applicable": na,
        "notes": "Sanitizers/race detectors are not applicable (pure Python, no threads, no native code of its own); see DESIGN.md section 6.",
    }
    with open(os.path.join(ROOT, "MANIFEST.json"), "w") as f:
        json.dump(man, f, indent=1)
    print(f"{len(checks)} checks, {len(na)} not claimed")


if __name__ == "__main__":
    main()
